import Pyrtma.Proofs.Emit
import Pyrtma.Model.Combined
/-!
# The combined-YAML round trip (C16): `elaborate (combine files)` against `elaborate (flattenFiles files)`

Structure of the proof
* `delta` / `Reg.push`: what one item adds to the registry, and that `elabItem = push ∘ delta` (`elabItem_eq`);
* frame: `delta` reads the registry only through the look-ups of the non-native names the item refers to and
  through `idOk` at its own id (`delta_congr`);
* exact swap of two adjacent items of different sections that do not refer to each other (`swap`), hence hoisting
  a whole section to the front (`hoist`), six times (`sortFrom`);
* the `_RESERVED_` block: swapping a reserved id with a message changes the registry only by the order of
  `msgs` / `msgIds` (`Sim`), and elaboration respects `Sim`;
* the core flags are forgotten first (`elaborate_unc`).
-/
namespace Pyrtma.Emit

/-! ## what one item adds -/

inductive Entry where
  | const (n : Name) (v : Val) (core : Bool)
  | str (n : Name) (s : Nat) (core : Bool)
  | alias (a : AliasR)
  | host (n : Name) (v : Int) (core : Bool)
  | mod (n : Name) (v : Int) (core : Bool)
  | struct (d : DefR)
  | msg (d : DefR) (id : Int)
deriving Repr

def Reg.push (R : Reg) : Entry → Reg
  | .const n v c => { R with consts := R.consts ++ [(n, v, c)] }
  | .str n s c => { R with strs := R.strs ++ [(n, s, c)] }
  | .alias a => { R with aliases := R.aliases ++ [a] }
  | .host n v c => { R with hosts := R.hosts ++ [(n, v, c)] }
  | .mod n v c => { R with mods := R.mods ++ [(n, v, c)] }
  | .struct d => { R with structs := R.structs ++ [d] }
  | .msg d id => { R with msgIds := R.msgIds ++ [(d.name, id, d.core)], msgs := R.msgs ++ [d] }

def deltaAlias (T : Tables) (R : Reg) (n target : Name) (core : Bool) : Except Err Entry :=
  match assoc T.natives target with
  | some (_, sz) => .ok (.alias { name := n, target, isStruct := false, align := sz, esize := sz, core })
  | none =>
    match findStruct R target with
    | some s => .ok (.alias { name := n, target, isStruct := true, align := s.align, esize := s.size, core })
    | none =>
      match findAlias R target with
      | some a => .ok (.alias { a with name := n, core })
      | none => .error .syntax

def deltaDef (T : Tables) (ap : Bool) (R : Reg) (f : FieldsSpec) : Except Err (List FieldR × Nat × Nat) :=
  match specFields T R f with
  | .error e => .error e
  | .ok fs => layoutDef T R ap fs

def delta (T : Tables) (ap core : Bool) (R : Reg) : Item → Except Err Entry
  | .const n v => .ok (.const n v core)
  | .strConst n s => .ok (.str n s core)
  | .alias n t => deltaAlias T R n t core
  | .hostId n v => .ok (.host n v core)
  | .moduleId n v => .ok (.mod n v core)
  | .struct n h f =>
    match deltaDef T ap R f with
    | .error e => .error e
    | .ok (fs', al, sz) => .ok (.struct { name := n, id := none, hash := h, fields := fs', align := al, size := sz, core })
  | .message n id h f =>
    if !idOk T R id then .error .syntax
    else match deltaDef T ap R f with
      | .error e => .error e
      | .ok (fs', al, sz) =>
        .ok (.msg { name := n, id := some id, hash := h, fields := fs', align := al, size := sz, core } id)
  | .signal n id h =>
    if !idOk T R id then .error .syntax
    else .ok (.msg { name := n, id := some id, hash := h, fields := [], align := 8, size := 0, core } id)
  | .reserved n id h =>
    if !idOk T R id then .error .syntax
    else .ok (.msg { name := n, id := some id, hash := h, fields := [], align := 8, size := 0, core } id)

theorem elabItem_eq (T : Tables) (ap core : Bool) (R : Reg) (it : Item) :
    elabItem T ap core R it = (delta T ap core R it).map R.push := by
  cases it with
  | const n v => rfl
  | strConst n s => rfl
  | hostId n v => rfl
  | moduleId n v => rfl
  | alias n t =>
    simp only [elabItem, delta, elabAlias, deltaAlias]
    cases assoc T.natives t with
    | some v => rfl
    | none =>
      simp only []
      cases findStruct R t with
      | some s => rfl
      | none => simp only []; cases findAlias R t <;> rfl
  | struct n h f =>
    simp only [elabItem, delta, deltaDef]
    cases specFields T R f with
    | error e => rfl
    | ok fs =>
      simp only []
      cases layoutDef T R ap fs with
      | error e => rfl
      | ok v => obtain ⟨a, b, c⟩ := v; rfl
  | message n id h f =>
    simp only [elabItem, delta, deltaDef]
    cases idOk T R id
    · rfl
    · simp only [Bool.not_true, Bool.false_eq_true, if_false]
      cases specFields T R f with
        | error e => rfl
        | ok fs =>
          simp only []
          cases layoutDef T R ap fs with
          | error e => rfl
          | ok v => obtain ⟨a, b, c⟩ := v; rfl
  | signal n id h =>
    simp only [elabItem, delta]
    cases idOk T R id <;> rfl
  | reserved n id h =>
    simp only [elabItem, delta]
    cases idOk T R id <;> rfl

theorem elabItem_ok {T : Tables} {ap core : Bool} {R R' : Reg} {it : Item} (h : elabItem T ap core R it = .ok R') :
    ∃ e, delta T ap core R it = .ok e ∧ R' = R.push e := by
  rw [elabItem_eq] at h
  cases hd : delta T ap core R it with
  | error e => simp [hd, Except.map] at h
  | ok e => simp [hd, Except.map] at h; exact ⟨e, rfl, h.symm⟩

theorem elabItem_of_delta {T : Tables} {ap core : Bool} {R : Reg} {it : Item} {e : Entry}
    (h : delta T ap core R it = .ok e) : elabItem T ap core R it = .ok (R.push e) := by
  rw [elabItem_eq, h]; rfl

end Pyrtma.Emit

namespace Pyrtma.Emit

/-! ## what an item defines and what it refers to -/

structure LookEq (T : Tables) (R Q : Reg) (it : Item) : Prop where
  look : ∀ n ∈ it.refs T, findAlias R n = findAlias Q n ∧ findStruct R n = findStruct Q n ∧ findMsg R n = findMsg Q n
  ids : ∀ id, it.msgId = some id → idOk T R id = idOk T Q id

theorem layoutDef_congr {T : Tables} (hC : TablesCt T) (R Q : Reg) (ap : Bool) (fs : List FieldR) :
    layoutDef T R ap fs = layoutDef T Q ap fs := by
  unfold layoutDef
  simp only [ctOk_true hC]

theorem lookupTy_congr {T : Tables} {R Q : Reg} {ty : Name}
    (h : isNative T ty = false → findAlias R ty = findAlias Q ty ∧ findStruct R ty = findStruct Q ty ∧ findMsg R ty = findMsg Q ty) :
    lookupTy T R ty = lookupTy T Q ty := by
  unfold lookupTy
  cases hn : assoc T.natives ty with
  | some v => rfl
  | none =>
    have := h (by simp [isNative, hn])
    simp only [this.1, this.2.1, this.2.2]

theorem elabFields_congr {T : Tables} {R Q : Reg} :
    ∀ (fs : List (Name × Name × Option Int)),
      (∀ f ∈ fs, isNative T f.2.1 = false →
        findAlias R f.2.1 = findAlias Q f.2.1 ∧ findStruct R f.2.1 = findStruct Q f.2.1 ∧ findMsg R f.2.1 = findMsg Q f.2.1) →
      elabFields T R fs = elabFields T Q fs
  | [], _ => rfl
  | f :: fs, h => by
    unfold elabFields
    have h1 : elabField T R f = elabField T Q f := by
      unfold elabField
      rw [lookupTy_congr (h f (by simp))]
    rw [h1, elabFields_congr fs (fun g hg => h g (by simp [hg]))]

theorem specFields_congr {T : Tables} {R Q : Reg} {f : FieldsSpec}
    (h : ∀ n ∈ specRefs T f, findAlias R n = findAlias Q n ∧ findStruct R n = findStruct Q n ∧ findMsg R n = findMsg Q n) :
    specFields T R f = specFields T Q f := by
  cases f with
  | list fs =>
    simp only [specFields]
    apply elabFields_congr
    intro g hg hn
    apply h
    simp only [specRefs, List.mem_filter, List.mem_map]
    exact ⟨⟨g, hg, rfl⟩, by simp [hn]⟩
  | reuse m =>
    have := h m (by simp [specRefs])
    simp only [specFields, this.2.1, this.2.2]

theorem deltaDef_congr {T : Tables} (hC : TablesCt T) {R Q : Reg} {ap : Bool} {f : FieldsSpec}
    (h : ∀ n ∈ specRefs T f, findAlias R n = findAlias Q n ∧ findStruct R n = findStruct Q n ∧ findMsg R n = findMsg Q n) :
    deltaDef T ap R f = deltaDef T ap Q f := by
  unfold deltaDef
  rw [specFields_congr h]
  cases specFields T Q f with
  | error e => rfl
  | ok fs => simp only [layoutDef_congr hC R Q]

/-- **frame**: what an item adds depends on the registry only through the look-ups of the names it refers to (and,
for a message, on whether its id is still free) -/
theorem delta_congr {T : Tables} (hC : TablesCt T) {R Q : Reg} {ap core : Bool} {it : Item} (h : LookEq T R Q it) :
    delta T ap core R it = delta T ap core Q it := by
  cases it with
  | const n v => rfl
  | strConst n s => rfl
  | hostId n v => rfl
  | moduleId n v => rfl
  | alias n t =>
    simp only [delta, deltaAlias]
    cases hn : assoc T.natives t with
    | some v => rfl
    | none =>
      have := h.look t (by simp [Item.refs, isNative, hn])
      simp only [this.1, this.2.1]
  | struct n hs f =>
    simp only [delta]
    rw [deltaDef_congr hC (fun m hm => h.look m (by simpa [Item.refs] using hm))]
  | message n id hs f =>
    simp only [delta]
    rw [h.ids id rfl, deltaDef_congr hC (fun m hm => h.look m (by simpa [Item.refs] using hm))]
  | signal n id hs =>
    simp only [delta]
    rw [h.ids id rfl]
  | reserved n id hs =>
    simp only [delta]
    rw [h.ids id rfl]

end Pyrtma.Emit

namespace Pyrtma.Emit

/-! ## pushing an entry: look-ups, commutation -/

def Entry.defName : Entry → Option Name
  | .alias a => some a.name
  | .struct d => some d.name
  | .msg d _ => some d.name
  | _ => none

def Entry.sec : Entry → Nat
  | .const .. => 0 | .str .. => 1 | .alias .. => 2 | .host .. => 3 | .mod .. => 4 | .struct .. => 5 | .msg .. => 6

def Entry.msgId : Entry → Option Int
  | .msg _ id => some id
  | _ => none

theorem find_push {R : Reg} {e : Entry} {n : Name} (h : e.defName ≠ some n) :
    findAlias (R.push e) n = findAlias R n ∧ findStruct (R.push e) n = findStruct R n ∧
      findMsg (R.push e) n = findMsg R n := by
  cases e <;> simp_all [Reg.push, findAlias, findStruct, findMsg, Entry.defName, List.find?_append]

theorem idOk_push (T : Tables) (R : Reg) (e : Entry) (id : Int) :
    idOk T (R.push e) id = (idOk T R id && !(e.msgId == some id)) := by
  cases e <;> simp [Reg.push, idOk, Entry.msgId, List.any_append, Bool.and_assoc]

theorem Item.msgId_sec {it : Item} {id : Int} (h : it.msgId = some id) : it.section = 6 := by
  cases it <;> simp_all [Item.msgId, Item.section]

theorem Entry.msgId_sec {e : Entry} {id : Int} (h : e.msgId = some id) : e.sec = 6 := by
  cases e <;> simp_all [Entry.msgId, Entry.sec]

theorem delta_entry {T : Tables} {ap core : Bool} {R : Reg} {it : Item} {e : Entry}
    (h : delta T ap core R it = .ok e) : e.defName = it.defName ∧ e.sec = it.section ∧ e.msgId = it.msgId := by
  cases it with
  | const n v => simp [delta] at h; subst h; simp [Entry.defName, Item.defName, Entry.sec, Item.section, Entry.msgId, Item.msgId]
  | strConst n s => simp [delta] at h; subst h; simp [Entry.defName, Item.defName, Entry.sec, Item.section, Entry.msgId, Item.msgId]
  | hostId n v => simp [delta] at h; subst h; simp [Entry.defName, Item.defName, Entry.sec, Item.section, Entry.msgId, Item.msgId]
  | moduleId n v => simp [delta] at h; subst h; simp [Entry.defName, Item.defName, Entry.sec, Item.section, Entry.msgId, Item.msgId]
  | alias n t =>
    simp only [delta, deltaAlias] at h
    split at h
    · simp at h; subst h; simp [Entry.defName, Item.defName, Entry.sec, Item.section, Entry.msgId, Item.msgId]
    · split at h
      · simp at h; subst h; simp [Entry.defName, Item.defName, Entry.sec, Item.section, Entry.msgId, Item.msgId]
      · split at h
        · simp at h; subst h; simp [Entry.defName, Item.defName, Entry.sec, Item.section, Entry.msgId, Item.msgId]
        · simp at h
  | struct n hs f =>
    simp only [delta] at h
    split at h
    · simp at h
    · simp at h; subst h; simp [Entry.defName, Item.defName, Entry.sec, Item.section, Entry.msgId, Item.msgId]
  | message n id hs f =>
    simp only [delta] at h
    split at h
    · simp at h
    · split at h
      · simp at h
      · simp at h; subst h; simp [Entry.defName, Item.defName, Entry.sec, Item.section, Entry.msgId, Item.msgId]
  | signal n id hs =>
    simp only [delta] at h
    split at h
    · simp at h
    · simp at h; subst h; simp [Entry.defName, Item.defName, Entry.sec, Item.section, Entry.msgId, Item.msgId]
  | reserved n id hs =>
    simp only [delta] at h
    split at h
    · simp at h
    · simp at h; subst h; simp [Entry.defName, Item.defName, Entry.sec, Item.section, Entry.msgId, Item.msgId]

theorem push_comm (R : Reg) {e1 e2 : Entry} (h : e1.sec ≠ e2.sec) : (R.push e1).push e2 = (R.push e2).push e1 := by
  cases e1 <;> cases e2 <;> first | rfl | (exfalso; exact h rfl)

/-- the two items do not refer to each other's name -/
def Indep (T : Tables) (x y : Item) : Prop :=
  (∀ n, x.defName = some n → n ∉ y.refs T) ∧ (∀ n, y.defName = some n → n ∉ x.refs T)

theorem lookEq_push {T : Tables} {R : Reg} {e : Entry} {it : Item}
    (h1 : ∀ n, e.defName = some n → n ∉ it.refs T) (h2 : ∀ id, it.msgId = some id → e.msgId ≠ some id) :
    LookEq T R (R.push e) it := by
  constructor
  · intro n hn
    have hne : e.defName ≠ some n := fun hc => h1 n hc hn
    have := find_push (R := R) hne
    exact ⟨this.1.symm, this.2.1.symm, this.2.2.symm⟩
  · intro id hid
    rw [idOk_push]
    have := h2 id hid
    simp [this]

/-- **exact swap** of two adjacent items of different sections that do not refer to each other -/
theorem swap {T : Tables} (hC : TablesCt T) {ap cx cy : Bool} {R R1 R2 : Reg} {x y : Item}
    (hs : x.section ≠ y.section) (hi : Indep T x y)
    (h1 : elabItem T ap cx R x = .ok R1) (h2 : elabItem T ap cy R1 y = .ok R2) :
    ∃ R1', elabItem T ap cy R y = .ok R1' ∧ elabItem T ap cx R1' x = .ok R2 := by
  obtain ⟨ex, hx, rfl⟩ := elabItem_ok h1
  obtain ⟨ey, hy, rfl⟩ := elabItem_ok h2
  obtain ⟨hxn, hxs, hxi⟩ := delta_entry hx
  obtain ⟨hyn, hys, hyi⟩ := delta_entry hy
  have hy' : delta T ap cy R y = .ok ey := by
    rw [delta_congr hC (lookEq_push (e := ex) ?_ ?_)]; exact hy
    · intro n hn; exact hi.1 n (hxn ▸ hn)
    · intro id hid hc
      exact hs (by rw [← hxs, Entry.msgId_sec hc, Item.msgId_sec hid])
  have hx' : delta T ap cx (R.push ey) x = .ok ex := by
    rw [← delta_congr hC (lookEq_push (e := ey) ?_ ?_)]; exact hx
    · intro n hn; exact hi.2 n (hyn ▸ hn)
    · intro id hid hc
      exact hs (by rw [← hys, Entry.msgId_sec hc, Item.msgId_sec hid])
  refine ⟨R.push ey, elabItem_of_delta hy', ?_⟩
  rw [elabItem_of_delta hx', push_comm R (e1 := ex) (e2 := ey) (by rw [hxs, hys]; exact hs)]

end Pyrtma.Emit

namespace Pyrtma.Emit

/-! ## hoisting one section to the front -/

theorem elaborate_cons_ok {T : Tables} {ap : Bool} {x : Bool × Item} {r : List (Bool × Item)} {R R' : Reg} :
    elaborate T ap (x :: r) R = .ok R' ↔ ∃ R1, elabItem T ap x.1 R x.2 = .ok R1 ∧ elaborate T ap r R1 = .ok R' := by
  obtain ⟨c, it⟩ := x
  simp only [elaborate]
  cases h : elabItem T ap c R it with
  | error e => simp
  | ok R1 => simp

theorem elaborate_append_ok {T : Tables} {ap : Bool} : ∀ {l1 l2 : List (Bool × Item)} {R R' : Reg},
    elaborate T ap (l1 ++ l2) R = .ok R' ↔ ∃ R1, elaborate T ap l1 R = .ok R1 ∧ elaborate T ap l2 R1 = .ok R'
  | [], l2, R, R' => by simp [elaborate]
  | x :: l1, l2, R, R' => by
    rw [List.cons_append, elaborate_cons_ok]
    constructor
    · rintro ⟨R1, h1, h2⟩
      obtain ⟨R2, h3, h4⟩ := elaborate_append_ok.mp h2
      exact ⟨R2, elaborate_cons_ok.mpr ⟨R1, h1, h3⟩, h4⟩
    · rintro ⟨R2, h3, h4⟩
      obtain ⟨R1, h1, h5⟩ := elaborate_cons_ok.mp h3
      exact ⟨R1, h1, elaborate_append_ok.mpr ⟨R2, h5, h4⟩⟩

/-- an item moves behind a block of items of other sections none of which it is entangled with -/
theorem slide {T : Tables} (hC : TablesCt T) {ap : Bool} {x : Bool × Item} :
    ∀ (block rest : List (Bool × Item)) (R R' : Reg),
      (∀ z ∈ block, x.2.section ≠ z.2.section ∧ Indep T x.2 z.2) →
      elaborate T ap (x :: (block ++ rest)) R = .ok R' → elaborate T ap (block ++ x :: rest) R = .ok R'
  | [], rest, R, R', _, h => by simpa using h
  | z :: b, rest, R, R', hb, h => by
    obtain ⟨Rx, hx, h'⟩ := elaborate_cons_ok.mp h
    rw [List.cons_append] at h'
    obtain ⟨Rxz, hz, h''⟩ := elaborate_cons_ok.mp h'
    obtain ⟨hs, hi⟩ := hb z (by simp)
    obtain ⟨Rz, hz', hx'⟩ := swap hC hs hi hx hz
    rw [List.cons_append]
    refine elaborate_cons_ok.mpr ⟨Rz, hz', ?_⟩
    apply slide hC b rest Rz R' (fun w hw => hb w (by simp [hw]))
    exact elaborate_cons_ok.mpr ⟨Rxz, hx', h''⟩

/-- `x` precedes `y` in the file order: if `y` belongs to an earlier section they are not entangled -/
def PairRel (T : Tables) (x y : Bool × Item) : Prop := y.2.section < x.2.section → Indep T x.2 y.2

theorem hoist {T : Tables} (hC : TablesCt T) {ap : Bool} (s : Nat) :
    ∀ (l rest : List (Bool × Item)) (R R' : Reg), (∀ x ∈ l, s ≤ x.2.section) → l.Pairwise (PairRel T) →
      elaborate T ap (l ++ rest) R = .ok R' →
      elaborate T ap (l.filter (fun x => x.2.section == s) ++ (l.filter (fun x => x.2.section != s) ++ rest)) R = .ok R'
  | [], rest, R, R', _, _, h => by simpa using h
  | x :: l, rest, R, R', hs, hp, h => by
    rw [List.cons_append] at h
    obtain ⟨Rx, hx, h'⟩ := elaborate_cons_ok.mp h
    have hp' := List.pairwise_cons.mp hp
    have ih := hoist hC s l rest Rx R' (fun y hy => hs y (by simp [hy])) hp'.2 h'
    by_cases hxs : x.2.section = s
    · simp only [List.filter_cons, hxs, beq_self_eq_true, if_true, bne_self_eq_false, Bool.false_eq_true, if_false,
        List.cons_append]
      exact elaborate_cons_ok.mpr ⟨Rx, hx, by simpa [hxs] using ih⟩
    · have hb : (x.2.section == s) = false := by simpa using hxs
      have hb' : (x.2.section != s) = true := by simpa using hxs
      simp only [List.filter_cons, hb, hb', Bool.false_eq_true, if_false, if_true, List.cons_append]
      apply slide hC
      · intro z hz
        simp only [List.mem_filter, beq_iff_eq] at hz
        have hlt : z.2.section < x.2.section := by
          have := hs x (by simp); omega
        exact ⟨by omega, hp'.1 z hz.1 hlt⟩
      · exact elaborate_cons_ok.mpr ⟨Rx, hx, ih⟩

/-- hoist sections `s, s+1, …, s+n-1` to the front, in that order -/
def sortFrom : Nat → Nat → List (Bool × Item) → List (Bool × Item)
  | _, 0, l => l
  | s, n + 1, l => l.filter (fun x => x.2.section == s) ++ sortFrom (s + 1) n (l.filter (fun x => x.2.section != s))

theorem sortFrom_ok {T : Tables} (hC : TablesCt T) {ap : Bool} :
    ∀ (n s : Nat) (l rest : List (Bool × Item)) (R R' : Reg), (∀ x ∈ l, s ≤ x.2.section) → l.Pairwise (PairRel T) →
      elaborate T ap (l ++ rest) R = .ok R' → elaborate T ap (sortFrom s n l ++ rest) R = .ok R'
  | 0, _, _, _, _, _, _, _, h => h
  | n + 1, s, l, rest, R, R', hs, hp, h => by
    have h1 := hoist hC s l rest R R' hs hp h
    obtain ⟨R1, ha, hb⟩ := elaborate_append_ok.mp h1
    simp only [sortFrom, List.append_assoc]
    refine elaborate_append_ok.mpr ⟨R1, ha, ?_⟩
    apply sortFrom_ok hC n (s + 1) _ rest R1 R' _ (hp.filter _) hb
    intro x hx
    simp only [List.mem_filter, bne_iff_ne, ne_eq] at hx
    have := hs x hx.1
    omega

end Pyrtma.Emit

namespace Pyrtma.Emit

/-! ## the `_RESERVED_` block: registries up to the order of `msgs` / `msgIds` -/

structure Sim (R Q : Reg) : Prop where
  consts : R.consts = Q.consts
  strs : R.strs = Q.strs
  aliases : R.aliases = Q.aliases
  hosts : R.hosts = Q.hosts
  mods : R.mods = Q.mods
  structs : R.structs = Q.structs
  msgs : R.msgs.Perm Q.msgs
  msgIds : R.msgIds.Perm Q.msgIds
  look : ∀ n, findMsg R n = findMsg Q n

theorem Sim.refl (R : Reg) : Sim R R := ⟨rfl, rfl, rfl, rfl, rfl, rfl, .refl _, .refl _, fun _ => rfl⟩

theorem Sim.symm {R Q : Reg} (h : Sim R Q) : Sim Q R :=
  ⟨h.consts.symm, h.strs.symm, h.aliases.symm, h.hosts.symm, h.mods.symm, h.structs.symm, h.msgs.symm, h.msgIds.symm,
   fun n => (h.look n).symm⟩

theorem Sim.trans {R Q S : Reg} (h : Sim R Q) (g : Sim Q S) : Sim R S :=
  ⟨h.consts.trans g.consts, h.strs.trans g.strs, h.aliases.trans g.aliases, h.hosts.trans g.hosts, h.mods.trans g.mods,
   h.structs.trans g.structs, h.msgs.trans g.msgs, h.msgIds.trans g.msgIds, fun n => (h.look n).trans (g.look n)⟩

theorem Sim.lookEq {R Q : Reg} (h : Sim R Q) (T : Tables) (it : Item) : LookEq T R Q it := by
  constructor
  · intro n _
    refine ⟨?_, ?_, h.look n⟩
    · simp [findAlias, h.aliases]
    · simp [findStruct, h.structs]
  · intro id _
    simp only [idOk]
    rw [h.msgIds.any_eq]

theorem Sim.push {R Q : Reg} (h : Sim R Q) (e : Entry) : Sim (R.push e) (Q.push e) := by
  cases e with
  | msg d id =>
    refine ⟨h.consts, h.strs, h.aliases, h.hosts, h.mods, h.structs, ?_, ?_, ?_⟩
    · exact h.msgs.append_right _
    · exact h.msgIds.append_right _
    · intro n
      have := h.look n
      simp only [findMsg] at this
      simp [Reg.push, findMsg, List.find?_append, this]
  | const n v c => exact ⟨by simp [Reg.push, h.consts], h.strs, h.aliases, h.hosts, h.mods, h.structs, h.msgs, h.msgIds, h.look⟩
  | str n v c => exact ⟨h.consts, by simp [Reg.push, h.strs], h.aliases, h.hosts, h.mods, h.structs, h.msgs, h.msgIds, h.look⟩
  | alias a => exact ⟨h.consts, h.strs, by simp [Reg.push, h.aliases], h.hosts, h.mods, h.structs, h.msgs, h.msgIds, h.look⟩
  | host n v c => exact ⟨h.consts, h.strs, h.aliases, by simp [Reg.push, h.hosts], h.mods, h.structs, h.msgs, h.msgIds, h.look⟩
  | mod n v c => exact ⟨h.consts, h.strs, h.aliases, h.hosts, by simp [Reg.push, h.mods], h.structs, h.msgs, h.msgIds, h.look⟩
  | struct d => exact ⟨h.consts, h.strs, h.aliases, h.hosts, h.mods, by simp [Reg.push, h.structs], h.msgs, h.msgIds, h.look⟩

theorem sim_elabItem {T : Tables} (hC : TablesCt T) {ap c : Bool} {R Q R1 : Reg} {it : Item} (h : Sim R Q)
    (h1 : elabItem T ap c R it = .ok R1) : ∃ Q1, elabItem T ap c Q it = .ok Q1 ∧ Sim R1 Q1 := by
  obtain ⟨e, he, rfl⟩ := elabItem_ok h1
  rw [delta_congr hC (h.lookEq T it)] at he
  exact ⟨Q.push e, elabItem_of_delta he, h.push e⟩

theorem sim_elaborate {T : Tables} (hC : TablesCt T) {ap : Bool} :
    ∀ (l : List (Bool × Item)) {R Q R' : Reg}, Sim R Q → elaborate T ap l R = .ok R' →
      ∃ Q', elaborate T ap l Q = .ok Q' ∧ Sim R' Q'
  | [], R, Q, R', h, h1 => by simp [elaborate] at h1; subst h1; exact ⟨Q, by simp [elaborate], h⟩
  | x :: l, R, Q, R', h, h1 => by
    obtain ⟨R1, hx, hl⟩ := elaborate_cons_ok.mp h1
    obtain ⟨Q1, hx', hs⟩ := sim_elabItem hC h hx
    obtain ⟨Q', hl', hs'⟩ := sim_elaborate hC l hs hl
    exact ⟨Q', elaborate_cons_ok.mpr ⟨Q1, hx', hl'⟩, hs'⟩

theorem delta_idOk {T : Tables} {ap core : Bool} {R : Reg} {it : Item} {e : Entry}
    (h : delta T ap core R it = .ok e) {id : Int} (hid : it.msgId = some id) : idOk T R id = true := by
  cases it with
  | message n i hs f =>
    simp only [Item.msgId, Option.some.injEq] at hid; subst hid
    simp only [delta] at h
    split at h
    · simp at h
    · rename_i hh; simpa using hh
  | signal n i hs =>
    simp only [Item.msgId, Option.some.injEq] at hid; subst hid
    simp only [delta] at h
    split at h
    · simp at h
    · rename_i hh; simpa using hh
  | reserved n i hs =>
    simp only [Item.msgId, Option.some.injEq] at hid; subst hid
    simp only [delta] at h
    split at h
    · simp at h
    · rename_i hh; simpa using hh
  | _ => simp [Item.msgId] at hid

theorem Entry.of_sec6 {e : Entry} (h : e.sec = 6) : ∃ d id, e = .msg d id := by
  cases e <;> simp_all [Entry.sec]

theorem find_swap {α} (p : α → Bool) (l : List α) (a b : α) (h : ¬ (p a = true ∧ p b = true)) :
    (l ++ [a] ++ [b]).find? p = (l ++ [b] ++ [a]).find? p := by
  cases ha : p a <;> cases hb : p b <;> simp_all [List.find?_append]

theorem Indep.symm {T : Tables} {x y : Item} (h : Indep T x y) : Indep T y x := ⟨h.2, h.1⟩

/-- two adjacent entries of `message_defs` with different names and not entangled: the order only shows in the order
of `msgs` / `msgIds` -/
theorem swapSim {T : Tables} (hC : TablesCt T) {ap cx cy : Bool} {R R1 R2 : Reg} {x y : Item}
    (hx6 : x.section = 6) (hy6 : y.section = 6) (hi : Indep T x y) (hn : x.defName ≠ y.defName)
    (h1 : elabItem T ap cx R x = .ok R1) (h2 : elabItem T ap cy R1 y = .ok R2) :
    ∃ Q1 Q2, elabItem T ap cy R y = .ok Q1 ∧ elabItem T ap cx Q1 x = .ok Q2 ∧ Sim R2 Q2 := by
  obtain ⟨ex, hx, rfl⟩ := elabItem_ok h1
  obtain ⟨ey, hy, rfl⟩ := elabItem_ok h2
  obtain ⟨hxn, hxs, hxi⟩ := delta_entry hx
  obtain ⟨hyn, hys, hyi⟩ := delta_entry hy
  have hids : ∀ id, y.msgId = some id → ex.msgId ≠ some id := by
    intro id hid hc
    have := delta_idOk hy hid
    rw [idOk_push] at this
    simp [hc] at this
  have hy' : delta T ap cy R y = .ok ey := by
    rw [delta_congr hC (lookEq_push (e := ex) ?_ hids)]; exact hy
    intro n hn'; exact hi.1 n (hxn ▸ hn')
  have hx' : delta T ap cx (R.push ey) x = .ok ex := by
    rw [← delta_congr hC (lookEq_push (e := ey) ?_ ?_)]; exact hx
    · intro n hn'; exact hi.2 n (hyn ▸ hn')
    · intro id hid hc
      exact hids id (hyi ▸ hc) (hxi ▸ hid)
  refine ⟨R.push ey, (R.push ey).push ex, elabItem_of_delta hy', elabItem_of_delta hx', ?_⟩
  obtain ⟨dx, ix, rfl⟩ := Entry.of_sec6 (hxs.trans hx6)
  obtain ⟨dy, iy, rfl⟩ := Entry.of_sec6 (hys.trans hy6)
  have hne : dx.name ≠ dy.name := by
    intro hc; apply hn; rw [← hxn, ← hyn]; simp [Entry.defName, hc]
  refine ⟨rfl, rfl, rfl, rfl, rfl, rfl, ?_, ?_, ?_⟩
  · simp only [Reg.push, List.append_assoc]
    exact (List.Perm.refl _).append (List.Perm.swap dy dx [])
  · simp only [Reg.push, List.append_assoc]
    exact (List.Perm.refl _).append (List.Perm.swap (dy.name, iy, dy.core) (dx.name, ix, dx.core) [])
  · intro n
    simp only [Reg.push, findMsg]
    apply find_swap
    intro hc
    simp only [beq_iff_eq] at hc
    exact hne (hc.1.trans hc.2.symm)

end Pyrtma.Emit

namespace Pyrtma.Emit

/-- a reserved id and another entry of `message_defs`: different names, not entangled -/
def ResOk (T : Tables) (x z : Bool × Item) : Prop :=
  x.2.section = 6 ∧ z.2.section = 6 ∧ Indep T x.2 z.2 ∧ x.2.defName ≠ z.2.defName

theorem slideSimLater {T : Tables} (hC : TablesCt T) {ap : Bool} {x : Bool × Item} :
    ∀ (block rest : List (Bool × Item)) (R R' : Reg), (∀ z ∈ block, ResOk T x z) →
      elaborate T ap (x :: (block ++ rest)) R = .ok R' →
      ∃ Q', elaborate T ap (block ++ x :: rest) R = .ok Q' ∧ Sim R' Q'
  | [], rest, R, R', _, h => ⟨R', by simpa using h, Sim.refl _⟩
  | z :: b, rest, R, R', hb, h => by
    obtain ⟨Rx, hx, h'⟩ := elaborate_cons_ok.mp h
    rw [List.cons_append] at h'
    obtain ⟨Rxz, hz, h''⟩ := elaborate_cons_ok.mp h'
    obtain ⟨hx6, hz6, hi, hn⟩ := hb z (by simp)
    obtain ⟨Qz, Qzx, hz', hx', hs⟩ := swapSim hC hx6 hz6 hi hn hx hz
    obtain ⟨R'', hr, hs'⟩ := sim_elaborate hC _ hs h''
    obtain ⟨Q', hq, hs''⟩ := slideSimLater hC b rest Qz R'' (fun w hw => hb w (by simp [hw]))
      (elaborate_cons_ok.mpr ⟨Qzx, hx', hr⟩)
    exact ⟨Q', by rw [List.cons_append]; exact elaborate_cons_ok.mpr ⟨Qz, hz', hq⟩, hs'.trans hs''⟩

theorem slideSimEarlier {T : Tables} (hC : TablesCt T) {ap : Bool} {x : Bool × Item} :
    ∀ (block rest : List (Bool × Item)) (R R' : Reg), (∀ z ∈ block, ResOk T x z) →
      elaborate T ap (block ++ x :: rest) R = .ok R' →
      ∃ Q', elaborate T ap (x :: (block ++ rest)) R = .ok Q' ∧ Sim R' Q'
  | [], rest, R, R', _, h => ⟨R', by simpa using h, Sim.refl _⟩
  | z :: b, rest, R, R', hb, h => by
    rw [List.cons_append] at h
    obtain ⟨Rz, hz, h'⟩ := elaborate_cons_ok.mp h
    obtain ⟨Q1, hq1, hs1⟩ := slideSimEarlier hC b rest Rz R' (fun w hw => hb w (by simp [hw])) h'
    obtain ⟨Rzx, hx, h''⟩ := elaborate_cons_ok.mp hq1
    obtain ⟨hx6, hz6, hi, hn⟩ := hb z (by simp)
    obtain ⟨Qx, Qxz, hx', hz', hs⟩ := swapSim hC hz6 hx6 hi.symm (Ne.symm hn) hz hx
    obtain ⟨Q', hq, hs'⟩ := sim_elaborate hC _ hs h''
    refine ⟨Q', elaborate_cons_ok.mpr ⟨Qx, hx', ?_⟩, hs1.trans hs'⟩
    rw [List.cons_append]
    exact elaborate_cons_ok.mpr ⟨Qxz, hz', hq⟩

def nonres (l : List (Bool × Item)) : List (Bool × Item) := l.filter (fun x => !x.2.isRes)
def resOf (l : List (Bool × Item)) : List (Bool × Item) := l.filter (fun x => x.2.isRes)

/-- all reserved ids moved behind the other entries -/
theorem toNF {T : Tables} (hC : TablesCt T) {ap : Bool} :
    ∀ (l : List (Bool × Item)) (R R' : Reg),
      (∀ x ∈ l, ∀ z ∈ l, x.2.isRes = true → z.2.isRes = false → ResOk T x z) →
      elaborate T ap l R = .ok R' → ∃ Q', elaborate T ap (nonres l ++ resOf l) R = .ok Q' ∧ Sim R' Q'
  | [], R, R', _, h => ⟨R', by simpa [nonres, resOf] using h, Sim.refl _⟩
  | x :: l, R, R', hr, h => by
    obtain ⟨Rx, hx, h'⟩ := elaborate_cons_ok.mp h
    obtain ⟨Q1, hq1, hs1⟩ := toNF hC l Rx R' (fun a ha b hb => hr a (by simp [ha]) b (by simp [hb])) h'
    cases hres : x.2.isRes with
    | false =>
      refine ⟨Q1, ?_, hs1⟩
      simp only [nonres, resOf, List.filter_cons, hres, Bool.not_false, if_true, Bool.false_eq_true, if_false,
        List.cons_append]
      exact elaborate_cons_ok.mpr ⟨Rx, hx, hq1⟩
    | true =>
      obtain ⟨Q', hq, hs⟩ := slideSimLater hC (nonres l) (resOf l) R Q1
        (fun z hz => by
          simp only [nonres, List.mem_filter, Bool.not_eq_true'] at hz
          exact hr x (by simp) z (by simp [hz.1]) hres hz.2)
        (elaborate_cons_ok.mpr ⟨Rx, hx, hq1⟩)
      refine ⟨Q', ?_, hs1.trans hs⟩
      simpa [nonres, resOf, List.filter_cons, hres] using hq

theorem fromNF {T : Tables} (hC : TablesCt T) {ap : Bool} :
    ∀ (l : List (Bool × Item)) (R R' : Reg),
      (∀ x ∈ l, ∀ z ∈ l, x.2.isRes = true → z.2.isRes = false → ResOk T x z) →
      elaborate T ap (nonres l ++ resOf l) R = .ok R' → ∃ Q', elaborate T ap l R = .ok Q' ∧ Sim R' Q'
  | [], R, R', _, h => ⟨R', by simpa [nonres, resOf] using h, Sim.refl _⟩
  | x :: l, R, R', hr, h => by
    have hr' : ∀ a ∈ l, ∀ b ∈ l, a.2.isRes = true → b.2.isRes = false → ResOk T a b :=
      fun a ha b hb => hr a (by simp [ha]) b (by simp [hb])
    cases hres : x.2.isRes with
    | false =>
      simp only [nonres, resOf, List.filter_cons, hres, Bool.not_false, if_true, Bool.false_eq_true, if_false,
        List.cons_append] at h
      obtain ⟨Rx, hx, h'⟩ := elaborate_cons_ok.mp h
      obtain ⟨Q', hq, hs⟩ := fromNF hC l Rx R' hr' h'
      exact ⟨Q', elaborate_cons_ok.mpr ⟨Rx, hx, hq⟩, hs⟩
    | true =>
      have h0 : elaborate T ap (nonres l ++ x :: resOf l) R = .ok R' := by
        simpa [nonres, resOf, List.filter_cons, hres] using h
      obtain ⟨Q1, hq1, hs1⟩ := slideSimEarlier hC (nonres l) (resOf l) R R'
        (fun z hz => by
          simp only [nonres, List.mem_filter, Bool.not_eq_true'] at hz
          exact hr x (by simp) z (by simp [hz.1]) hres hz.2) h0
      obtain ⟨Rx, hx, h'⟩ := elaborate_cons_ok.mp hq1
      obtain ⟨Q', hq, hs⟩ := fromNF hC l Rx Q1 hr' h'
      exact ⟨Q', elaborate_cons_ok.mpr ⟨Rx, hx, hq⟩, hs1.trans hs⟩

/-- **rearranging the reserved ids**: two orders of the same `message_defs` entries that agree on the order of the
entries other than reserved ids and on the order of the reserved ids elaborate to registries that differ only in the
order of `msgs` / `msgIds` -/
theorem rearrange_reserved {T : Tables} (hC : TablesCt T) {ap : Bool} (l1 l2 : List (Bool × Item)) (R R' : Reg)
    (hr : ∀ x ∈ l1, ∀ z ∈ l1, x.2.isRes = true → z.2.isRes = false → ResOk T x z)
    (hn : nonres l2 = nonres l1) (hres : resOf l2 = resOf l1)
    (h : elaborate T ap l1 R = .ok R') : ∃ Q', elaborate T ap l2 R = .ok Q' ∧ Sim R' Q' := by
  obtain ⟨Q1, hq1, hs1⟩ := toNF hC l1 R R' hr h
  rw [← hn, ← hres] at hq1
  have hr2 : ∀ x ∈ l2, ∀ z ∈ l2, x.2.isRes = true → z.2.isRes = false → ResOk T x z := by
    intro x hx z hz hxr hzr
    have hx1 : x ∈ l1 := by
      have : x ∈ resOf l2 := by simp [resOf, hx, hxr]
      rw [hres] at this; simp only [resOf, List.mem_filter] at this; exact this.1
    have hz1 : z ∈ l1 := by
      have : z ∈ nonres l2 := by simp [nonres, hz, hzr]
      rw [hn] at this; simp only [nonres, List.mem_filter] at this; exact this.1
    exact hr x hx1 z hz1 hxr hzr
  obtain ⟨Q', hq, hs⟩ := fromNF hC l2 R Q1 hr2 hq1
  exact ⟨Q', hq, hs1.trans hs⟩

end Pyrtma.Emit

namespace Pyrtma.Emit

/-! ## forgetting the "came from core_defs/" flags -/

def AliasR.unc (a : AliasR) : AliasR := { a with core := false }
def DefR.unc (d : DefR) : DefR := { d with core := false }

def Reg.unc (R : Reg) : Reg :=
  { consts := R.consts.map (fun c => (c.1, c.2.1, false)), strs := R.strs.map (fun c => (c.1, c.2.1, false)),
    aliases := R.aliases.map AliasR.unc, hosts := R.hosts.map (fun c => (c.1, c.2.1, false)),
    mods := R.mods.map (fun c => (c.1, c.2.1, false)), msgIds := R.msgIds.map (fun c => (c.1, c.2.1, false)),
    structs := R.structs.map DefR.unc, msgs := R.msgs.map DefR.unc }

def Entry.unc : Entry → Entry
  | .const n v _ => .const n v false
  | .str n s _ => .str n s false
  | .alias a => .alias a.unc
  | .host n v _ => .host n v false
  | .mod n v _ => .mod n v false
  | .struct d => .struct d.unc
  | .msg d id => .msg d.unc id

def uncItems (l : List (Bool × Item)) : List (Bool × Item) := l.map (fun x => (false, x.2))

theorem push_unc (R : Reg) (e : Entry) : (R.push e).unc = R.unc.push e.unc := by
  cases e <;> simp [Reg.push, Reg.unc, Entry.unc, DefR.unc]

theorem findAlias_unc (R : Reg) (n : Name) : findAlias R.unc n = (findAlias R n).map AliasR.unc := by
  simp only [findAlias, Reg.unc, List.find?_map]; rfl

theorem findStruct_unc (R : Reg) (n : Name) : findStruct R.unc n = (findStruct R n).map DefR.unc := by
  simp only [findStruct, Reg.unc, List.find?_map]; rfl

theorem findMsg_unc (R : Reg) (n : Name) : findMsg R.unc n = (findMsg R n).map DefR.unc := by
  simp only [findMsg, Reg.unc, List.find?_map]; rfl

theorem lookupTy_unc (T : Tables) (R : Reg) (ty : Name) : lookupTy T R.unc ty = lookupTy T R ty := by
  unfold lookupTy
  rw [findAlias_unc, findStruct_unc, findMsg_unc]
  cases assoc T.natives ty <;> cases findAlias R ty <;> cases findStruct R ty <;> cases findMsg R ty <;> rfl

theorem elabFields_unc (T : Tables) (R : Reg) : ∀ fs, elabFields T R.unc fs = elabFields T R fs
  | [] => rfl
  | f :: fs => by
    unfold elabFields
    have : elabField T R.unc f = elabField T R f := by unfold elabField; rw [lookupTy_unc]
    rw [this, elabFields_unc T R fs]

theorem specFields_unc (T : Tables) (R : Reg) (f : FieldsSpec) : specFields T R.unc f = specFields T R f := by
  cases f with
  | list fs => exact elabFields_unc T R fs
  | reuse m =>
    simp only [specFields]
    rw [findStruct_unc, findMsg_unc]
    cases findMsg R m <;> cases findStruct R m <;> rfl

theorem idOk_unc (T : Tables) (R : Reg) (id : Int) : idOk T R.unc id = idOk T R id := by
  simp [idOk, Reg.unc, List.any_map, Function.comp_def]

theorem deltaDef_unc {T : Tables} (hC : TablesCt T) (ap : Bool) (R : Reg) (f : FieldsSpec) :
    deltaDef T ap R.unc f = deltaDef T ap R f := by
  unfold deltaDef
  rw [specFields_unc]
  cases specFields T R f with
  | error e => rfl
  | ok fs => exact layoutDef_congr hC _ _ ap fs

theorem delta_unc {T : Tables} (hC : TablesCt T) (ap c : Bool) (R : Reg) (it : Item) :
    delta T ap false R.unc it = (delta T ap c R it).map Entry.unc := by
  cases it with
  | const n v => rfl
  | strConst n s => rfl
  | hostId n v => rfl
  | moduleId n v => rfl
  | alias n t =>
    simp only [delta, deltaAlias]
    rw [findStruct_unc, findAlias_unc]
    cases assoc T.natives t with
    | some v => rfl
    | none =>
      cases findStruct R t with
      | some s => rfl
      | none => cases findAlias R t <;> rfl
  | struct n hs f =>
    simp only [delta]
    rw [deltaDef_unc hC]
    cases deltaDef T ap R f with
    | error e => rfl
    | ok v => obtain ⟨a, b, d⟩ := v; rfl
  | message n id hs f =>
    simp only [delta]
    rw [deltaDef_unc hC, idOk_unc]
    cases idOk T R id
    · rfl
    · cases deltaDef T ap R f with
      | error e => rfl
      | ok v => obtain ⟨a, b, d⟩ := v; rfl
  | signal n id hs =>
    simp only [delta]; rw [idOk_unc]; cases idOk T R id <;> rfl
  | reserved n id hs =>
    simp only [delta]; rw [idOk_unc]; cases idOk T R id <;> rfl

theorem elabItem_unc {T : Tables} (hC : TablesCt T) {ap c : Bool} {R R1 : Reg} {it : Item}
    (h : elabItem T ap c R it = .ok R1) : elabItem T ap false R.unc it = .ok R1.unc := by
  obtain ⟨e, he, rfl⟩ := elabItem_ok h
  have := delta_unc hC ap c R it
  rw [he] at this
  rw [elabItem_of_delta this, push_unc]

theorem elaborate_unc {T : Tables} (hC : TablesCt T) {ap : Bool} :
    ∀ (l : List (Bool × Item)) {R R' : Reg}, elaborate T ap l R = .ok R' →
      elaborate T ap (uncItems l) R.unc = .ok R'.unc
  | [], R, R', h => by simp [elaborate] at h; subst h; simp [uncItems, elaborate]
  | x :: l, R, R', h => by
    obtain ⟨R1, hx, hl⟩ := elaborate_cons_ok.mp h
    simp only [uncItems, List.map_cons]
    exact elaborate_cons_ok.mpr ⟨R1.unc, elabItem_unc hC hx, elaborate_unc hC l hl⟩

end Pyrtma.Emit

namespace Pyrtma.Emit

/-! ## what a successful parse with distinct names says about references -/

def typeNames (R : Reg) : List Name := R.aliases.map (·.name) ++ R.structs.map (·.name) ++ R.msgs.map (·.name)

/-- names that a field type / alias target / `fields:` source can successfully resolve to: no signal -/
def goodNames (R : Reg) : List Name :=
  R.aliases.map (·.name) ++ R.structs.map (·.name) ++ (R.msgs.filter (fun d => !d.fields.isEmpty)).map (·.name)

theorem good_sub_type {R : Reg} {n : Name} (h : n ∈ goodNames R) : n ∈ typeNames R := by
  simp only [goodNames, typeNames, List.mem_append, List.mem_map, List.mem_filter] at h ⊢
  rcases h with (h | h) | ⟨d, ⟨hd, _⟩, rfl⟩
  · exact .inl (.inl h)
  · exact .inl (.inr h)
  · exact .inr ⟨d, hd, rfl⟩

theorem mem_defNames {l : List (Bool × Item)} {n : Name} : n ∈ defNames l ↔ ∃ y ∈ l, y.2.defName = some n := by
  simp [defNames, List.mem_filterMap]

theorem findAlias_good {R : Reg} {n : Name} {a : AliasR} (h : findAlias R n = some a) : n ∈ goodNames R := by
  have hm := List.mem_of_find?_eq_some h
  have hk := List.find?_some h
  simp only [beq_iff_eq] at hk
  simp only [goodNames, List.mem_append, List.mem_map]
  exact .inl (.inl ⟨a, hm, hk⟩)

theorem findStruct_good {R : Reg} {n : Name} {d : DefR} (h : findStruct R n = some d) : n ∈ goodNames R := by
  have hm := List.mem_of_find?_eq_some h
  have hk := List.find?_some h
  simp only [beq_iff_eq] at hk
  simp only [goodNames, List.mem_append, List.mem_map]
  exact .inl (.inr ⟨d, hm, hk⟩)

theorem findMsg_good {R : Reg} {n : Name} {d : DefR} (h : findMsg R n = some d) (hf : d.fields.isEmpty = false) :
    n ∈ goodNames R := by
  have hm := List.mem_of_find?_eq_some h
  have hk := List.find?_some h
  simp only [beq_iff_eq] at hk
  simp only [goodNames, List.mem_append, List.mem_map, List.mem_filter]
  exact .inr ⟨d, ⟨hm, by simp [hf]⟩, hk⟩

theorem elabFields_good {T : Tables} {R : Reg} : ∀ {fs : List (Name × Name × Option Int)} {xs : List FieldR},
    elabFields T R fs = .ok xs → ∀ f ∈ fs, isNative T f.2.1 = false → f.2.1 ∈ goodNames R
  | [], _, _, f, hf, _ => by simp at hf
  | g :: fs, xs, h, f, hf, hn => by
    unfold elabFields at h
    split at h
    · simp at h
    · rename_i x hx
      split at h
      · simp at h
      · rename_i xs' hxs
        simp only [List.mem_cons] at hf
        rcases hf with rfl | hf
        · unfold elabField at hx
          split at hx
          · simp at hx
          · rename_i k al es sg hl
            split at hx
            · simp at hx
            · rename_i hsg
              unfold lookupTy at hl
              simp only [isNative, Option.isSome_eq_false_iff, Option.isNone_iff_eq_none] at hn
              simp only [hn] at hl
              split at hl
              · rename_i a ha; exact findAlias_good ha
              · split at hl
                · rename_i s hs; exact findStruct_good hs
                · split at hl
                  · rename_i d hd
                    simp only [Option.some.injEq, Prod.mk.injEq] at hl
                    exact findMsg_good hd (by
                      have := hl.2.2.2
                      cases hde : d.fields.isEmpty
                      · rfl
                      · rw [hde] at this; rw [← this] at hsg; simp at hsg)
                  · simp at hl
        · exact elabFields_good hxs f hf hn

theorem layoutDef_nonempty {T : Tables} {R : Reg} {ap : Bool} {fs : List FieldR} {v}
    (h : layoutDef T R ap fs = .ok v) : fs.isEmpty = false := by
  unfold layoutDef at h
  split at h
  · simp at h
  · rename_i hne; simpa using hne

theorem deltaDef_good {T : Tables} {ap : Bool} {R : Reg} {f : FieldsSpec} {v}
    (h : deltaDef T ap R f = .ok v) : ∀ n ∈ specRefs T f, n ∈ goodNames R := by
  unfold deltaDef at h
  split at h
  · simp at h
  · rename_i fs hfs
    cases f with
    | list gs =>
      intro n hn
      simp only [specRefs, List.mem_filter, List.mem_map, Bool.not_eq_true'] at hn
      obtain ⟨⟨g, hg, rfl⟩, hnat⟩ := hn
      exact elabFields_good hfs g hg hnat
    | reuse m =>
      intro n hn
      simp only [specRefs, List.mem_singleton] at hn
      subst hn
      simp only [specFields] at hfs
      split at hfs
      · rename_i d hd
        simp only [Except.ok.injEq] at hfs
        subst hfs
        exact findMsg_good hd (layoutDef_nonempty h)
      · split at hfs
        · rename_i d hd; exact findStruct_good hd
        · simp at hfs

/-- every (non-native) name a successfully elaborated item refers to is an alias, a struct or a message with fields
of the registry it was elaborated in -/
theorem refs_good {T : Tables} {ap c : Bool} {R : Reg} {it : Item} {e : Entry} (h : delta T ap c R it = .ok e) :
    ∀ n ∈ it.refs T, n ∈ goodNames R := by
  cases it with
  | alias a t =>
    intro n hn
    simp only [Item.refs] at hn
    split at hn
    · simp at hn
    · rename_i hnat
      simp only [List.mem_singleton] at hn
      subst hn
      simp only [isNative, Bool.not_eq_true, Option.isSome_eq_false_iff, Option.isNone_iff_eq_none] at hnat
      simp only [delta, deltaAlias, hnat] at h
      split at h
      · rename_i s hs; exact findStruct_good hs
      · split at h
        · rename_i a' ha; exact findAlias_good ha
        · simp at h
  | struct n hs f =>
    simp only [delta] at h
    split at h
    · simp at h
    · rename_i hd; simpa [Item.refs] using deltaDef_good hd
  | message n id hs f =>
    simp only [delta] at h
    split at h
    · simp at h
    · split at h
      · simp at h
      · rename_i hd; simpa [Item.refs] using deltaDef_good hd
  | _ => simp [Item.refs]

theorem mem_typeNames_push {R : Reg} {e : Entry} {n : Name} :
    n ∈ typeNames (R.push e) ↔ n ∈ typeNames R ∨ e.defName = some n := by
  cases e <;> simp [typeNames, Reg.push, Entry.defName, or_comm, or_left_comm] <;>
    (constructor <;> rintro (h | h) <;> first | exact .inl h.symm | exact .inr h)

theorem mem_goodNames_push {R : Reg} {e : Entry} {n : Name} (h : n ∈ goodNames (R.push e)) :
    n ∈ goodNames R ∨ (e.defName = some n ∧ ∀ d id, e = .msg d id → d.fields.isEmpty = false) := by
  cases e with
  | msg d id =>
    simp only [goodNames, Reg.push, List.filter_append, List.map_append, List.mem_append] at h ⊢
    rcases h with (h | h) | h | h
    · exact .inl (.inl (.inl h))
    · exact .inl (.inl (.inr h))
    · exact .inl (.inr h)
    · simp only [List.filter_cons, List.filter_nil] at h
      split at h
      · rename_i hf
        simp only [List.map_cons, List.map_nil, List.mem_singleton] at h
        refine .inr ⟨by simp [Entry.defName, h], ?_⟩
        intro d' id' he
        simp only [Entry.msg.injEq] at he
        rw [← he.1]; simpa using hf
      · simp at h
  | alias a =>
    simp only [goodNames, Reg.push, List.map_append, List.mem_append, List.map_cons, List.map_nil, List.mem_singleton] at h ⊢
    rcases h with ((h | h) | h) | h
    · exact .inl (.inl (.inl h))
    · exact .inr ⟨by simp [Entry.defName, h], by intro d id he; cases he⟩
    · exact .inl (.inl (.inr h))
    · exact .inl (.inr h)
  | struct d =>
    simp only [goodNames, Reg.push, List.map_append, List.mem_append, List.map_cons, List.map_nil, List.mem_singleton] at h ⊢
    rcases h with (h | h | h) | h
    · exact .inl (.inl (.inl h))
    · exact .inl (.inl (.inr h))
    · exact .inr ⟨by simp [Entry.defName, h], by intro d id he; cases he⟩
    · exact .inl (.inr h)
  | const n v c => exact .inl h
  | str n v c => exact .inl h
  | host n v c => exact .inl h
  | mod n v c => exact .inl h

theorem delta_res_fields {T : Tables} {ap c : Bool} {R : Reg} {it : Item} {d : DefR} {id : Int}
    (h : delta T ap c R it = .ok (.msg d id)) (hr : it.isRes = true) : d.fields.isEmpty = true := by
  cases it with
  | reserved n i hs =>
    simp only [delta] at h
    split at h
    · simp at h
    · simp at h; rw [← h.1]; rfl
  | _ => simp [Item.isRes] at hr

/-- every reference of every item of a successfully parsed list names an alias / struct / message-with-fields that
was there before or that a *non-reserved* item of the list defines -/
theorem refs_resolved {T : Tables} {ap : Bool} : ∀ (l : List (Bool × Item)) (R R' : Reg),
    elaborate T ap l R = .ok R' → ∀ y ∈ l, ∀ n ∈ y.2.refs T,
      n ∈ goodNames R ∨ ∃ w ∈ l, w.2.defName = some n ∧ w.2.isRes = false
  | [], _, _, _, y, hy, _, _ => by simp at hy
  | x :: l, R, R', h, y, hy, n, hn => by
    obtain ⟨R1, hx, hl⟩ := elaborate_cons_ok.mp h
    obtain ⟨e, he, rfl⟩ := elabItem_ok hx
    simp only [List.mem_cons] at hy
    rcases hy with rfl | hy
    · exact .inl (refs_good he n hn)
    · rcases refs_resolved l _ R' hl y hy n hn with h1 | ⟨w, hw, hwn, hwr⟩
      · rcases mem_goodNames_push h1 with h2 | ⟨h2, h3⟩
        · exact .inl h2
        · refine .inr ⟨x, by simp, (delta_entry he).1 ▸ h2, ?_⟩
          cases hr : x.2.isRes with
          | false => rfl
          | true =>
            obtain ⟨d, id, rfl⟩ := Entry.of_sec6 (e := e) (by
              rw [(delta_entry he).2.1]; cases hx2 : x.2 <;> simp_all [Item.isRes, Item.section])
            have := delta_res_fields he hr
            rw [h3 d id rfl] at this; exact absurd this (by simp)
      · exact .inr ⟨w, by simp [hw], hwn, hwr⟩

theorem nodup_defName : ∀ {l : List (Bool × Item)}, (defNames l).Nodup → ∀ {a b : Bool × Item} {n : Name},
    a ∈ l → b ∈ l → a.2.defName = some n → b.2.defName = some n → a = b
  | [], _, a, _, _, ha, _, _, _ => by simp at ha
  | x :: l, hnd, a, b, n, ha, hb, han, hbn => by
    have hnd' : (defNames l).Nodup := by
      simp only [defNames, List.filterMap_cons] at hnd
      split at hnd
      · exact hnd
      · exact (List.nodup_cons.mp hnd).2
    have hx : ∀ y ∈ l, y.2.defName = some n → x.2.defName = some n → False := by
      intro y hy hyn hxn
      simp only [defNames, List.filterMap_cons, hxn] at hnd
      exact (List.nodup_cons.mp hnd).1 (mem_defNames.mpr ⟨y, hy, hyn⟩)
    simp only [List.mem_cons] at ha hb
    rcases ha with rfl | ha <;> rcases hb with rfl | hb
    · rfl
    · exact (hx b hb hbn han).elim
    · exact (hx a ha han hbn).elim
    · exact nodup_defName hnd' ha hb han hbn

/-- no item refers to a name that a *later* item defines (needs only distinct names and a successful parse) -/
theorem no_later_refs {T : Tables} {ap : Bool} : ∀ (l : List (Bool × Item)) (R R' : Reg),
    elaborate T ap l R = .ok R' → (∀ n ∈ typeNames R, n ∉ defNames l) → (defNames l).Nodup →
      l.Pairwise (fun x y => ∀ n, y.2.defName = some n → n ∉ x.2.refs T)
  | [], _, _, _, _, _ => List.Pairwise.nil
  | x :: l, R, R', h, hR, hnd => by
    obtain ⟨R1, hx, hl⟩ := elaborate_cons_ok.mp h
    obtain ⟨e, he, rfl⟩ := elabItem_ok hx
    have hnd' : (defNames l).Nodup := by
      simp only [defNames, List.filterMap_cons] at hnd
      split at hnd
      · exact hnd
      · exact (List.nodup_cons.mp hnd).2
    refine List.pairwise_cons.mpr ⟨?_, no_later_refs l _ R' hl ?_ hnd'⟩
    · intro y hy n hyn hn
      have := hR n (good_sub_type (refs_good he n hn))
      exact this (mem_defNames.mpr ⟨y, by simp [hy], hyn⟩)
    · intro n hn hc
      rcases mem_typeNames_push.mp hn with h1 | h1
      · apply hR n h1
        obtain ⟨y, hy, hyn⟩ := mem_defNames.mp hc
        exact mem_defNames.mpr ⟨y, by simp [hy], hyn⟩
      · rw [(delta_entry he).1] at h1
        simp only [defNames, List.filterMap_cons, h1] at hnd
        exact (List.nodup_cons.mp hnd).1 hc

end Pyrtma.Emit

namespace Pyrtma.Emit

/-! ## the two hypotheses of the round trip, and what they give -/

theorem noFwdRef_spec {T : Tables} {l : List (Bool × Item)} (h : noFwdRef T l = true) {x y : Bool × Item} {n : Name}
    (hx : x ∈ l) (hy : y ∈ l) (hd : x.2.defName = some n) (hr : n ∈ y.2.refs T) : ¬ y.2.section < x.2.section := by
  simp only [noFwdRef, List.all_eq_true] at h
  have := h y hy n hr x hx
  simpa [hd] using this

theorem noFwdRef_false {T : Tables} {l : List (Bool × Item)} (h : noFwdRef T l = false) :
    ∃ y ∈ l, ∃ n ∈ y.2.refs T, ∃ x ∈ l, x.2.defName = some n ∧ y.2.section < x.2.section := by
  simp only [noFwdRef, List.all_eq_false, Bool.not_eq_true, Bool.not_eq_false', Bool.and_eq_true, beq_iff_eq,
    decide_eq_true_eq] at h
  obtain ⟨y, hy, n, hn, x, hx, h⟩ := h
  exact ⟨y, hy, n, hn, x, hx, h⟩

theorem defNames_unc (l : List (Bool × Item)) : defNames (uncItems l) = defNames l := by
  simp [defNames, uncItems, List.filterMap_map, Function.comp_def]

theorem noFwdRef_unc (T : Tables) (l : List (Bool × Item)) : noFwdRef T (uncItems l) = noFwdRef T l := by
  simp [noFwdRef, uncItems, List.all_map, Function.comp_def]

theorem Item.isRes_sec {it : Item} (h : it.isRes = true) : it.section = 6 := by
  cases it <;> simp_all [Item.isRes, Item.section]

theorem Item.isRes_refs (T : Tables) {it : Item} (h : it.isRes = true) : it.refs T = [] := by
  cases it <;> simp_all [Item.isRes, Item.refs]

theorem Item.sec6_defName {it : Item} (h : it.section = 6) : ∃ n, it.defName = some n := by
  cases it <;> simp_all [Item.section, Item.defName]

/-- `PairRel` for a successfully parsed list with distinct names and no forward reference -/
theorem pairRel_of {T : Tables} {ap : Bool} {l : List (Bool × Item)} {R : Reg}
    (h : elaborate T ap l {} = .ok R) (hnd : (defNames l).Nodup) (hfw : noFwdRef T l = true) :
    l.Pairwise (PairRel T) := by
  have h1 := no_later_refs (T := T) l {} R h (by simp [typeNames]) hnd
  refine List.Pairwise.imp_of_mem ?_ h1
  intro x y hx hy hxy hlt
  refine ⟨?_, hxy⟩
  intro n hd hr
  exact noFwdRef_spec hfw hx hy hd hr hlt

/-- a reserved id and any other entry of `message_defs` of such a list -/
theorem resOk_of {T : Tables} {ap : Bool} {l : List (Bool × Item)} {R : Reg}
    (h : elaborate T ap l {} = .ok R) (hnd : (defNames l).Nodup) {x z : Bool × Item} (hx : x ∈ l) (hz : z ∈ l)
    (hxr : x.2.isRes = true) (hzr : z.2.isRes = false) (hz6 : z.2.section = 6) : ResOk T x z := by
  refine ⟨Item.isRes_sec hxr, hz6, ⟨?_, ?_⟩, ?_⟩
  · intro n hd hr
    rcases refs_resolved l {} R h z hz n hr with h1 | ⟨w, hw, hwn, hwr⟩
    · simp [goodNames] at h1
    · have := nodup_defName hnd hw hx hwn hd
      rw [this, hxr] at hwr; exact absurd hwr (by simp)
  · intro n _; rw [Item.isRes_refs T hxr]; simp
  · intro hc
    obtain ⟨n, hn⟩ := Item.sec6_defName hz6
    have := nodup_defName hnd hx hz (hc.trans hn) hn
    rw [this, hzr] at hxr; exact absurd hxr (by simp)

/-! ## the list the re-parse reads -/

theorem Item.section_le (it : Item) : it.section ≤ 6 := by cases it <;> simp [Item.section]

def secF (k : Nat) (l : List (Bool × Item)) : List (Bool × Item) := l.filter (fun x => x.2.section == k)

theorem sortFrom_six (l : List (Bool × Item)) :
    sortFrom 0 6 l = secF 0 l ++ (secF 1 l ++ (secF 2 l ++ (secF 3 l ++ (secF 4 l ++ (secF 5 l ++ secF 6 l))))) := by
  simp only [sortFrom, secF, List.filter_filter]
  have key : ∀ (p q : (Bool × Item) → Bool), (∀ x, p x = q x) → l.filter p = l.filter q := by
    intro p q h; exact List.filter_congr (fun x _ => h x)
  have hsec : ∀ x : Bool × Item, x.2.section = 0 ∨ x.2.section = 1 ∨ x.2.section = 2 ∨ x.2.section = 3 ∨
      x.2.section = 4 ∨ x.2.section = 5 ∨ x.2.section = 6 := by
    intro x; have := x.2.section_le; omega
  congr 1
  congr 1
  · exact key _ _ (fun x => by rcases hsec x with h | h | h | h | h | h | h <;> simp [h])
  congr 1
  · exact key _ _ (fun x => by rcases hsec x with h | h | h | h | h | h | h <;> simp [h])
  congr 1
  · exact key _ _ (fun x => by rcases hsec x with h | h | h | h | h | h | h <;> simp [h])
  congr 1
  · exact key _ _ (fun x => by rcases hsec x with h | h | h | h | h | h | h <;> simp [h])
  congr 1
  · exact key _ _ (fun x => by rcases hsec x with h | h | h | h | h | h | h <;> simp [h])
  · exact key _ _ (fun x => by rcases hsec x with h | h | h | h | h | h | h <;> simp [h])

theorem unc_flatten (fs : List FileItems) : uncItems (flattenFiles fs) = (allItems fs).map (fun it => (false, it)) := by
  simp only [uncItems, flattenFiles, allItems, List.map_flatMap, List.map_map, Function.comp_def]

theorem secF_unc (k : Nat) (fs : List FileItems) :
    secF k (uncItems (flattenFiles fs)) = (secDict k fs).map (fun it => (false, it)) := by
  rw [unc_flatten]
  simp only [secF, secDict, List.filter_map, Function.comp_def]

theorem flatMap_res (fs : List FileItems) : fs.flatMap FileItems.res = (allItems fs).filter (·.isRes) := by
  induction fs with
  | nil => rfl
  | cons f r ih => simp only [List.flatMap_cons, allItems, List.filter_append] at ih ⊢; rw [ih]; rfl

theorem flatMap_msgs (fs : List FileItems) :
    fs.flatMap FileItems.msgs = (allItems fs).filter (fun it => it.section == 6 && !it.isRes) := by
  induction fs with
  | nil => rfl
  | cons f r ih => simp only [List.flatMap_cons, allItems, List.filter_append] at ih ⊢; rw [ih]; rfl

theorem msgDict_nonres : ∀ (fs : List FileItems),
    (msgDict fs).filter (fun it => !it.isRes) = (allItems fs).filter (fun it => it.section == 6 && !it.isRes)
  | [] => rfl
  | f :: r => by
    have hm : f.msgs.filter (fun it => !it.isRes) = f.msgs := by
      simp only [FileItems.msgs, List.filter_filter]
      apply List.filter_congr; intro x _; cases x.isRes <;> simp
    have hr : ∀ (gs : List FileItems), (gs.flatMap FileItems.res).filter (fun it => !it.isRes) = [] := by
      intro gs
      rw [flatMap_res, List.filter_filter]
      apply List.filter_eq_nil_iff.mpr; intro x _; cases x.isRes <;> simp
    have hmm : (r.flatMap FileItems.msgs).filter (fun it => !it.isRes) = r.flatMap FileItems.msgs := by
      rw [flatMap_msgs, List.filter_filter]
      apply List.filter_congr; intro x _; cases x.isRes <;> simp
    have hall : allItems (f :: r) = f.items ++ allItems r := by simp [allItems]
    simp only [msgDict]
    split
    · rw [List.filter_append, hm, msgDict_nonres r, hall, List.filter_append]; rfl
    · rw [List.filter_append, List.filter_append, hm, hr, hmm, flatMap_msgs, hall, List.filter_append]
      simp [FileItems.msgs]

theorem msgDict_res : ∀ (fs : List FileItems), (msgDict fs).filter (·.isRes) = (allItems fs).filter (·.isRes)
  | [] => rfl
  | f :: r => by
    have hm : f.msgs.filter (·.isRes) = [] := by
      simp only [FileItems.msgs, List.filter_filter]
      apply List.filter_eq_nil_iff.mpr; intro x _; cases x.isRes <;> simp
    have hmm : (r.flatMap FileItems.msgs).filter (·.isRes) = [] := by
      rw [flatMap_msgs, List.filter_filter]
      apply List.filter_eq_nil_iff.mpr; intro x _; cases x.isRes <;> simp
    have hrr : ∀ (gs : List FileItems), (gs.flatMap FileItems.res).filter (·.isRes) = gs.flatMap FileItems.res := by
      intro gs
      rw [flatMap_res, List.filter_filter]
      apply List.filter_congr; intro x _; cases x.isRes <;> simp
    have hall : allItems (f :: r) = f.items ++ allItems r := by simp [allItems]
    simp only [msgDict]
    split
    · rename_i he
      have : f.items.filter (·.isRes) = [] := by simpa [FileItems.res] using he
      rw [List.filter_append, hm, msgDict_res r, hall, List.filter_append, this]
    · rw [List.filter_append, List.filter_append, hm, hmm, hrr, flatMap_res]; simp

theorem combine_eq (fs : List FileItems) :
    combine fs = secF 0 (uncItems (flattenFiles fs)) ++ (secF 1 (uncItems (flattenFiles fs)) ++
      (secF 2 (uncItems (flattenFiles fs)) ++ (secF 3 (uncItems (flattenFiles fs)) ++
      (secF 4 (uncItems (flattenFiles fs)) ++ (secF 5 (uncItems (flattenFiles fs)) ++
        (msgDict fs).map (fun it => (false, it))))))) := by
  simp only [secF_unc]
  simp [combine, readSections, combinedSections]

end Pyrtma.Emit

namespace Pyrtma.Emit

/-! ## the round trip -/

theorem unc_empty : ({} : Reg).unc = {} := rfl

/-- **The combined-YAML round trip (positive half).**  A closure that parses, whose alias / struct / message names
are pairwise distinct (the parser's own duplicate check, C12) and that has no forward reference re-parses from its
combined file to the same registry: constants, string constants, aliases, host ids, module ids and structs in the same
order with the same content, the messages with the same content (order up to the position of the merged
`_RESERVED_` block), everything unmarked as "core". -/
theorem combined_roundtrip {T : Tables} (hC : TablesCt T) (ap : Bool) (fs : List FileItems) (R : Reg)
    (h : elaborate T ap (flattenFiles fs) {} = .ok R) (hnd : (defNames (flattenFiles fs)).Nodup)
    (hfw : noFwdRef T (flattenFiles fs) = true) :
    ∃ R', elaborate T ap (combine fs) {} = .ok R' ∧ Sim R.unc R' := by
  have h0 := elaborate_unc hC _ h
  rw [unc_empty] at h0
  generalize hL : uncItems (flattenFiles fs) = L at h0
  have hndL : (defNames L).Nodup := by rw [← hL, defNames_unc]; exact hnd
  have hfwL : noFwdRef T L = true := by rw [← hL, noFwdRef_unc]; exact hfw
  have hpw := pairRel_of h0 hndL hfwL
  have h1 := sortFrom_ok hC 6 0 L [] {} R.unc (fun _ _ => Nat.zero_le _) hpw (by simpa using h0)
  rw [List.append_nil, sortFrom_six] at h1
  -- split off the `message_defs` section
  rw [← List.append_assoc, ← List.append_assoc, ← List.append_assoc, ← List.append_assoc, ← List.append_assoc] at h1
  obtain ⟨Rp, hp, h6⟩ := elaborate_append_ok.mp h1
  have hsub : ∀ x ∈ secF 6 L, x ∈ L ∧ x.2.section = 6 := by
    intro x hx; simpa [secF] using hx
  obtain ⟨Q', hq, hs⟩ := rearrange_reserved hC (secF 6 L) ((msgDict fs).map (fun it => (false, it))) Rp R.unc
    (fun x hx z hz hxr hzr => resOk_of h0 hndL (hsub x hx).1 (hsub z hz).1 hxr hzr (hsub z hz).2)
    (by
      rw [← hL, secF_unc]
      simp only [nonres, List.filter_map, Function.comp_def, secDict]
      rw [msgDict_nonres, List.filter_filter]
      congr 1
      apply List.filter_congr; intro x _; exact Bool.and_comm _ _)
    (by
      rw [← hL, secF_unc]
      simp only [resOf, List.filter_map, Function.comp_def, secDict]
      rw [msgDict_res, List.filter_filter]
      congr 1
      apply List.filter_congr; intro x _
      cases hr : x.isRes
      · simp
      · simp [Item.isRes_sec hr])
    h6
  refine ⟨Q', ?_, hs⟩
  rw [combine_eq, hL]
  rw [← List.append_assoc, ← List.append_assoc, ← List.append_assoc, ← List.append_assoc, ← List.append_assoc]
  exact elaborate_append_ok.mpr ⟨Rp, hp, hq⟩

end Pyrtma.Emit

namespace Pyrtma.Emit

/-! ## the negative half: a forward reference makes the re-parse fail -/

theorem sortFrom_perm : ∀ (n s : Nat) (l : List (Bool × Item)), (sortFrom s n l).Perm l
  | 0, _, _ => .refl _
  | n + 1, s, l => by
    simp only [sortFrom]
    refine ((List.Perm.refl _).append (sortFrom_perm n (s + 1) _)).trans ?_
    have := List.filter_append_perm (fun x : Bool × Item => x.2.section == s) l
    simpa [bne] using this

theorem msgDict_mem {fs : List FileItems} {it : Item} (h : it ∈ msgDict fs) : it ∈ allItems fs ∧ it.section = 6 := by
  cases hr : it.isRes with
  | true =>
    have : it ∈ (msgDict fs).filter (·.isRes) := by simp [h, hr]
    rw [msgDict_res] at this
    exact ⟨(List.mem_filter.mp this).1, Item.isRes_sec hr⟩
  | false =>
    have : it ∈ (msgDict fs).filter (fun it => !it.isRes) := by simp [h, hr]
    rw [msgDict_nonres] at this
    have := List.mem_filter.mp this
    have h2 := this.2
    simp only [Bool.and_eq_true, beq_iff_eq] at h2
    exact ⟨this.1, h2.1⟩

theorem msgDict_perm (fs : List FileItems) :
    ((msgDict fs).map (fun it => (false, it))).Perm (secF 6 (uncItems (flattenFiles fs))) := by
  rw [secF_unc]
  apply List.Perm.map
  have h1 := (List.filter_append_perm (fun it : Item => it.isRes) (msgDict fs)).symm
  have h2 := List.filter_append_perm (fun it : Item => it.isRes) (secDict 6 fs)
  refine h1.trans (List.Perm.trans ?_ h2)
  have e1 : (msgDict fs).filter (·.isRes) = (secDict 6 fs).filter (·.isRes) := by
    rw [msgDict_res, secDict, List.filter_filter]
    apply List.filter_congr; intro x _
    cases hr : x.isRes
    · simp
    · simp [Item.isRes_sec hr]
  have e2 : (msgDict fs).filter (fun it => !it.isRes) = (secDict 6 fs).filter (fun it => !it.isRes) := by
    rw [msgDict_nonres, secDict, List.filter_filter]
    apply List.filter_congr; intro x _; exact Bool.and_comm _ _
  rw [e1, e2]

theorem combine_perm (fs : List FileItems) : (combine fs).Perm (uncItems (flattenFiles fs)) := by
  rw [combine_eq]
  refine List.Perm.trans ?_ (sortFrom_perm 6 0 _)
  rw [sortFrom_six]
  exact (List.Perm.refl _).append ((List.Perm.refl _).append ((List.Perm.refl _).append ((List.Perm.refl _).append
    ((List.Perm.refl _).append ((List.Perm.refl _).append (msgDict_perm fs))))))

def SecSorted (l : List (Bool × Item)) : Prop := l.Pairwise (fun a b => a.2.section ≤ b.2.section)

theorem sorted_block {k : Nat} {l1 l2 : List (Bool × Item)} (h1 : ∀ a ∈ l1, a.2.section = k) (h2 : SecSorted l2)
    (hb : ∀ b ∈ l2, k ≤ b.2.section) : SecSorted (l1 ++ l2) ∧ ∀ b ∈ l1 ++ l2, k ≤ b.2.section := by
  constructor
  · refine List.pairwise_append.mpr ⟨?_, h2, ?_⟩
    · exact List.pairwise_of_forall_mem_list (fun a ha b hb' => by rw [h1 a ha, h1 b hb']; exact Nat.le_refl _)
    · intro a ha b hb'; rw [h1 a ha]; exact hb b hb'
  · intro b hb'
    rcases List.mem_append.mp hb' with h | h
    · rw [h1 b h]; exact Nat.le_refl _
    · exact hb b h

end Pyrtma.Emit

namespace Pyrtma.Emit

theorem combine_sorted (fs : List FileItems) : SecSorted (combine fs) := by
  rw [combine_eq]
  have hM : SecSorted ((msgDict fs).map (fun it => (false, it))) ∧
      ∀ b ∈ (msgDict fs).map (fun it => (false, it)), 6 ≤ b.2.section := by
    have h6 : ∀ b ∈ (msgDict fs).map (fun it => (false, it)), b.2.section = 6 := by
      intro b hb
      obtain ⟨it, hit, rfl⟩ := List.mem_map.mp hb
      exact (msgDict_mem hit).2
    exact ⟨List.pairwise_of_forall_mem_list (fun a ha b hb => by rw [h6 a ha, h6 b hb]; exact Nat.le_refl _),
      fun b hb => by rw [h6 b hb]; exact Nat.le_refl _⟩
  have blk : ∀ k (L : List (Bool × Item)), ∀ a ∈ secF k L, a.2.section = k := by
    intro k L a ha; simpa [secF] using (List.mem_filter.mp ha).2
  have h5 := sorted_block (blk 5 (uncItems (flattenFiles fs))) hM.1 (fun b hb => Nat.le_trans (by decide) (hM.2 b hb))
  have h4 := sorted_block (blk 4 (uncItems (flattenFiles fs))) h5.1 (fun b hb => Nat.le_trans (by decide) (h5.2 b hb))
  have h3 := sorted_block (blk 3 (uncItems (flattenFiles fs))) h4.1 (fun b hb => Nat.le_trans (by decide) (h4.2 b hb))
  have h2 := sorted_block (blk 2 (uncItems (flattenFiles fs))) h3.1 (fun b hb => Nat.le_trans (by decide) (h3.2 b hb))
  have h1 := sorted_block (blk 1 (uncItems (flattenFiles fs))) h2.1 (fun b hb => Nat.le_trans (by decide) (h2.2 b hb))
  have h0 := sorted_block (blk 0 (uncItems (flattenFiles fs))) h1.1 (fun b hb => Nat.le_trans (by decide) (h1.2 b hb))
  exact h0.1

theorem pairwise_mem_or {α} {r : α → α → Prop} : ∀ {l : List α}, l.Pairwise r → ∀ {a b : α}, a ∈ l → b ∈ l →
    a = b ∨ r a b ∨ r b a
  | [], _, a, _, ha, _ => by simp at ha
  | x :: l, hp, a, b, ha, hb => by
    have hp' := List.pairwise_cons.mp hp
    simp only [List.mem_cons] at ha hb
    rcases ha with rfl | ha <;> rcases hb with rfl | hb
    · exact .inl rfl
    · exact .inr (.inl (hp'.1 b hb))
    · exact .inr (.inr (hp'.1 a ha))
    · exact pairwise_mem_or hp'.2 ha hb

/-- **The combined-YAML round trip (negative half).**  With distinct names, a closure that has a forward reference
(an item referring to a name that an item of a later section defines) yields a combined file the parser refuses —
whether or not the closure itself parses. -/
theorem combined_fails_of_fwd {T : Tables} (ap : Bool) (fs : List FileItems)
    (hnd : (defNames (flattenFiles fs)).Nodup) (hfw : noFwdRef T (flattenFiles fs) = false) (Q : Reg) :
    elaborate T ap (combine fs) {} ≠ .ok Q := by
  intro hq
  have hperm := combine_perm fs
  have hndc : (defNames (combine fs)).Nodup := by
    have : (defNames (combine fs)).Perm (defNames (uncItems (flattenFiles fs))) := hperm.filterMap _
    rw [defNames_unc] at this
    exact this.nodup_iff.mpr hnd
  have hP := no_later_refs (T := T) (combine fs) {} Q hq (by simp [typeNames]) hndc
  have hS := combine_sorted fs
  have hboth := hS.and hP
  -- the offending pair
  rw [← noFwdRef_unc] at hfw
  obtain ⟨y, hy, n, hn, x, hx, hxy⟩ := noFwdRef_false hfw
  have hyc : y ∈ combine fs := hperm.mem_iff.mpr hy
  have hxc : x ∈ combine fs := hperm.mem_iff.mpr hx
  rcases pairwise_mem_or hboth hyc hxc with h | h | h
  · subst h; exact absurd hxy.2 (Nat.lt_irrefl _)
  · exact h.2 n hxy.1 hn
  · exact absurd h.1 (Nat.not_le.mpr hxy.2)

/-- **exactly the failing class**: for a closure that parses and has distinct names, the re-parse of its combined
file fails iff the closure has a forward reference -/
theorem combined_fails_iff {T : Tables} (hC : TablesCt T) (ap : Bool) (fs : List FileItems) (R : Reg)
    (h : elaborate T ap (flattenFiles fs) {} = .ok R) (hnd : (defNames (flattenFiles fs)).Nodup) :
    (∃ e, elaborate T ap (combine fs) {} = .error e) ↔ noFwdRef T (flattenFiles fs) = false := by
  constructor
  · rintro ⟨e, he⟩
    cases hf : noFwdRef T (flattenFiles fs) with
    | false => rfl
    | true =>
      obtain ⟨R', hr, _⟩ := combined_roundtrip hC ap fs R h hnd hf
      rw [hr] at he; cases he
  · intro hf
    cases hc : elaborate T ap (combine fs) {} with
    | error e => exact ⟨e, rfl⟩
    | ok Q => exact absurd hc (combined_fails_of_fwd ap fs hnd hf Q)

end Pyrtma.Emit
