import Pyrtma.Spec.Serial
import Pyrtma.Proofs.Validators
/-! Helper lemmas for C10: the position induction of ctypes slice stores (`storeMany` / `writeAt`), chunking, the
full-slice index list, and the bounds of Python's `max` / `min`.  Core Lean only. -/
namespace Pyrtma.Serial
open Pyrtma.Validators

/-! ### chunks -/
theorem chunks_length (sz : Nat) : ∀ (n : Nat) (b : Bytes), (chunks sz n b).length = n
  | 0, _ => rfl
  | n + 1, b => by simp [chunks, chunks_length sz n]

theorem chunks_flatten (sz : Nat) : ∀ (n : Nat) (b : Bytes), b.length = n * sz → (chunks sz n b).flatten = b
  | 0, b, h => by
    have : b = [] := List.eq_nil_of_length_eq_zero (by omega)
    simp [chunks, this]
  | n + 1, b, h => by
    have hl : (b.drop sz).length = n * sz := by rw [List.length_drop, h, Nat.succ_mul]; omega
    simp only [chunks, List.flatten_cons, chunks_flatten sz n _ hl, List.take_append_drop]

theorem chunks_elem_length (sz : Nat) : ∀ (n : Nat) (b : Bytes), b.length = n * sz → ∀ c ∈ chunks sz n b, c.length = sz
  | 0, _, _, c, hc => by simp [chunks] at hc
  | n + 1, b, h, c, hc => by
    have hl : (b.drop sz).length = n * sz := by rw [List.length_drop, h, Nat.succ_mul]; omega
    simp only [chunks, List.mem_cons] at hc
    rcases hc with rfl | hc
    · rw [List.length_take, h, Nat.succ_mul]; omega
    · exact chunks_elem_length sz n _ hl c hc

theorem chunks_elem_bytes (sz : Nat) : ∀ (n : Nat) (b : Bytes), (∀ x ∈ b, x < 256) → ∀ c ∈ chunks sz n b, ∀ x ∈ c, x < 256
  | 0, _, _, c, hc => by simp [chunks] at hc
  | n + 1, b, h, c, hc => by
    simp only [chunks, List.mem_cons] at hc
    rcases hc with rfl | hc
    · intro x hx; exact h x (List.mem_of_mem_take hx)
    · exact chunks_elem_bytes sz n _ (fun x hx => h x (List.mem_of_mem_drop hx)) c hc

/-- chunks of the concatenation of equally long pieces are the pieces -/
theorem chunks_flatten_id (sz : Nat) : ∀ (cs : List Bytes), (∀ c ∈ cs, c.length = sz) → chunks sz cs.length cs.flatten = cs
  | [], _ => rfl
  | c :: cs, h => by
    have hc : c.length = sz := h c (by simp)
    have ih := chunks_flatten_id sz cs (fun d hd => h d (by simp [hd]))
    simp only [List.length_cons, chunks, List.flatten_cons]
    rw [List.take_left' hc, List.drop_left' hc, ih]

/-! ### the index list of `[:]` -/
theorem sliceIndices_all (n : Nat) : sliceIndices n none none none = .ok (List.range n) := by
  unfold sliceIndices
  simp only [Option.getD_none]
  have h1 : ((1 : Int) == 0) = false := by decide
  have h2 : ¬ ((1 : Int) < 0) := by decide
  simp only [h1, Bool.false_eq_true, if_false, h2]
  by_cases hn : (0 : Int) < (n : Int)
  · have hc : (((n : Int) - 0 - 1) / 1 + 1).toNat = n := by
      rw [Int.ediv_one]; omega
    simp only [hn, if_true, hc]
    congr 1
    apply List.ext_getElem
    · simp
    · intro i h1 h2
      simp
  · have : n = 0 := by omega
    subst this
    simp

/-! ### the position induction: a slice store that writes every element -/
theorem storeMany_fill (vk : VK) : ∀ (pairs : List (Scalar × Bytes)) (done restOld : Bytes) (i : Nat),
    (∀ p ∈ pairs, elemStore vk p.1 = .ok p.2 ∧ p.2.length = vk.esize) →
    done.length = i * vk.esize → restOld.length = pairs.length * vk.esize →
    storeMany vk (done ++ restOld) (List.range' i pairs.length) (pairs.map (·.1)) =
      (done ++ (pairs.map (·.2)).flatten, none)
  | [], done, restOld, i, _, _, hr => by
    have : restOld = [] := List.eq_nil_of_length_eq_zero (by simpa using hr)
    simp [storeMany, this]
  | p :: ps, done, restOld, i, h, hd, hr => by
    obtain ⟨hs, hl⟩ := h p (by simp)
    simp only [List.length_cons, List.range'_succ, List.map_cons, storeMany, hs]
    have hw : writeAt (done ++ restOld) i vk.esize p.2 = (done ++ p.2) ++ restOld.drop vk.esize := by
      unfold writeAt
      rw [← hd, List.take_left, ← List.drop_drop, List.drop_left]
    rw [hw]
    have hr' : (restOld.drop vk.esize).length = ps.length * vk.esize := by
      rw [List.length_drop, hr, List.length_cons, Nat.succ_mul]; omega
    have hd' : (done ++ p.2).length = (i + 1) * vk.esize := by
      rw [List.length_append, hd, hl, Nat.succ_mul]
    rw [storeMany_fill vk ps (done ++ p.2) _ (i + 1) (fun q hq => h q (by simp [hq])) hd' hr']
    simp

/-! ### Python's `max` / `min` stay inside the bounds of the elements -/
theorem pyMax_le (hi : Int) : ∀ (xs : List Int) (m : Int), m ≤ hi → (∀ x ∈ xs, x ≤ hi) → pyMax m xs ≤ hi
  | [], m, hm, _ => by simpa [pyMax] using hm
  | x :: xs, m, hm, h => by
    have hx : x ≤ hi := h x (by simp)
    simp only [pyMax]
    apply pyMax_le hi xs
    · split <;> assumption
    · intro y hy; exact h y (by simp [hy])

theorem pyMin_ge (lo : Int) : ∀ (xs : List Int) (m : Int), lo ≤ m → (∀ x ∈ xs, lo ≤ x) → lo ≤ pyMin m xs
  | [], m, hm, _ => by simpa [pyMin] using hm
  | x :: xs, m, hm, h => by
    have hx : lo ≤ x := h x (by simp)
    simp only [pyMin]
    apply pyMin_ge lo xs
    · split <;> assumption
    · intro y hy; exact h y (by simp [hy])

/-! ### a whole-array slice store on a fresh field -/
theorem zeros_length (n : Nat) : (zeros n).length = n := by simp [zeros]

theorem storeSlice_fill (vk : VK) (n : Nat) (pairs : List (Scalar × Bytes)) (hlen : pairs.length = n)
    (hst : ∀ p ∈ pairs, elemStore vk p.1 = .ok p.2 ∧ p.2.length = vk.esize) :
    storeSlice vk n (zeros (vk.esize * n)) none none none (.seq .list (pairs.map (·.1))) =
      ((pairs.map (·.2)).flatten, none) := by
  have hz : (zeros (vk.esize * n)).length = pairs.length * vk.esize := by
    rw [zeros_length, hlen, Nat.mul_comm]
  have h := storeMany_fill vk pairs [] (zeros (vk.esize * n)) 0 hst (by simp) hz
  simp only [List.nil_append] at h
  simp only [storeSlice, slicePrep, sliceIndices_all, sized, items, List.length_map, List.length_range, hlen,
    Bool.not_true, Bool.false_eq_true, if_false, ne_eq, not_true_eq_false]
  rw [List.range_eq_range']
  subst hlen
  exact h

end Pyrtma.Serial
