import Pyrtma.Proofs.Combined
/-!
# The registries `elaborate` builds are well scoped (used by C15 loadability and C04 agreement)

`RegOK T R`: every alias of `R` targets a native type or a struct of `R`; every field of every struct / message has the
kind (`native / alias / struct / message`) the parser recorded, and what it names exists — for a struct field of
kind struct: among the structs stored *before* that struct, for a message field of kind message: among the messages
(with fields) stored before that message.  `typeNames R` has no duplicates when the items have none.
-/
namespace Pyrtma.Emit

def aliasNames (R : Reg) : List Name := R.aliases.map (·.name)
def structNames (R : Reg) : List Name := R.structs.map (·.name)
def goodMsgs (l : List DefR) : List Name := (l.filter (fun d => !d.fields.isEmpty)).map (·.name)

/-- the kind the parser recorded for the field is what the names in scope say -/
def FieldOk (T : Tables) (an sn mn : List Name) (f : FieldR) : Prop :=
  match f.kind with
  | .native => isNative T f.ty = true
  | .alias => f.ty ∈ an ∧ isNative T f.ty = false
  | .struct => f.ty ∈ sn ∧ isNative T f.ty = false
  | .message => f.ty ∈ mn ∧ isNative T f.ty = false

theorem FieldOk.mono {T : Tables} {an sn mn an' sn' mn' : List Name} {f : FieldR} (h : FieldOk T an sn mn f)
    (ha : ∀ x ∈ an, x ∈ an') (hs : ∀ x ∈ sn, x ∈ sn') (hm : ∀ x ∈ mn, x ∈ mn') : FieldOk T an' sn' mn' f := by
  unfold FieldOk at h ⊢
  cases hk : f.kind <;> simp only [hk] at h ⊢
  · exact h
  · exact ⟨ha _ h.1, h.2⟩
  · exact ⟨hs _ h.1, h.2⟩
  · exact ⟨hm _ h.1, h.2⟩

/-- `ok pre d` for every element `d` of the list, `pre` being the elements before it -/
def defsOk (ok : List DefR → DefR → Prop) : List DefR → List DefR → Prop
  | _, [] => True
  | pre, d :: r => ok pre d ∧ defsOk ok (pre ++ [d]) r

theorem defsOk.mono {ok ok' : List DefR → DefR → Prop} (h : ∀ pre d, ok pre d → ok' pre d) :
    ∀ {pre l}, defsOk ok pre l → defsOk ok' pre l
  | _, [], _ => trivial
  | _, _ :: _, hl => ⟨h _ _ hl.1, defsOk.mono h hl.2⟩

theorem defsOk_snoc {ok : List DefR → DefR → Prop} : ∀ {pre l : List DefR} {d : DefR},
    defsOk ok pre (l ++ [d]) ↔ defsOk ok pre l ∧ ok (pre ++ l) d
  | pre, [], d => by simp [defsOk]
  | pre, x :: l, d => by
    simp only [List.cons_append, defsOk]
    rw [defsOk_snoc (pre := pre ++ [x]) (l := l)]
    simp [and_assoc]

theorem defsOk_mem {ok : List DefR → DefR → Prop} : ∀ {pre l : List DefR}, defsOk ok pre l → ∀ d ∈ l,
    ∃ p q, pre ++ l = p ++ d :: q ∧ ok p d
  | _, [], _, d, hd => by simp at hd
  | pre, x :: l, h, d, hd => by
    simp only [List.mem_cons] at hd
    rcases hd with rfl | hd
    · exact ⟨pre, l, rfl, h.1⟩
    · obtain ⟨p, q, hpq, hok⟩ := defsOk_mem h.2 d hd
      exact ⟨p, q, by rw [← hpq]; simp, hok⟩

structure RegOK (T : Tables) (R : Reg) : Prop where
  al : ∀ a ∈ R.aliases, (a.isStruct = true → a.target ∈ structNames R ∧ isNative T a.target = false) ∧
        (a.isStruct = false → isNative T a.target = true)
  st : defsOk (fun pre d => ∀ f ∈ d.fields, FieldOk T (aliasNames R) (pre.map (·.name)) (goodMsgs R.msgs) f) [] R.structs
  ms : defsOk (fun pre d => ∀ f ∈ d.fields, FieldOk T (aliasNames R) (structNames R) (goodMsgs pre) f) [] R.msgs

theorem regOK_empty (T : Tables) : RegOK T {} := ⟨by simp, trivial, trivial⟩

theorem goodMsgs_append (l1 l2 : List DefR) : goodMsgs (l1 ++ l2) = goodMsgs l1 ++ goodMsgs l2 := by
  simp [goodMsgs, List.filter_append]

theorem mem_goodMsgs {l : List DefR} {n : Name} : n ∈ goodMsgs l ↔ ∃ d ∈ l, d.fields.isEmpty = false ∧ d.name = n := by
  simp [goodMsgs, List.mem_map, List.mem_filter, and_assoc]

end Pyrtma.Emit

namespace Pyrtma.Emit

theorem find_name {α} {l : List α} {nm : α → Name} {n : Name} {a : α}
    (h : l.find? (fun x => nm x == n) = some a) : a ∈ l ∧ nm a = n := by
  refine ⟨List.mem_of_find?_eq_some h, ?_⟩
  have := List.find?_some h
  simpa using this

theorem elabField_ok {T : Tables} {R : Reg} {f : Name × Name × Option Int} {x : FieldR}
    (h : elabField T R f = .ok x) : FieldOk T (aliasNames R) (structNames R) (goodMsgs R.msgs) x := by
  unfold elabField at h
  split at h
  · simp at h
  · rename_i k al es sg hl
    split at h
    · simp at h
    · rename_i hsg
      have hx : x.kind = k ∧ x.ty = f.2.1 := by
        split at h
        · simp at h; subst h; exact ⟨rfl, rfl⟩
        · split at h
          · simp at h
          · simp at h; subst h; exact ⟨rfl, rfl⟩
      unfold lookupTy at hl
      unfold FieldOk
      cases hn : assoc T.natives f.2.1 with
      | some v =>
        simp only [hn, Option.some.injEq, Prod.mk.injEq] at hl
        rw [hx.1, ← hl.1]; simp [isNative, hx.2, hn]
      | none =>
        have hnat : isNative T x.ty = false := by simp [isNative, hx.2, hn]
        simp only [hn] at hl
        split at hl
        · rename_i a ha
          simp only [Option.some.injEq, Prod.mk.injEq] at hl
          rw [hx.1, ← hl.1]
          have := find_name (nm := fun a : AliasR => a.name) ha
          exact ⟨by rw [hx.2, ← this.2]; exact List.mem_map.mpr ⟨a, this.1, rfl⟩, hnat⟩
        · split at hl
          · rename_i s hs
            simp only [Option.some.injEq, Prod.mk.injEq] at hl
            rw [hx.1, ← hl.1]
            have := find_name (nm := fun a : DefR => a.name) hs
            exact ⟨by rw [hx.2, ← this.2]; exact List.mem_map.mpr ⟨s, this.1, rfl⟩, hnat⟩
          · split at hl
            · rename_i d hd
              simp only [Option.some.injEq, Prod.mk.injEq] at hl
              rw [hx.1, ← hl.1]
              have := find_name (nm := fun a : DefR => a.name) hd
              refine ⟨?_, hnat⟩
              rw [hx.2]
              refine mem_goodMsgs.mpr ⟨d, this.1, ?_, this.2⟩
              have h4 := hl.2.2.2
              cases hde : d.fields.isEmpty
              · rfl
              · rw [hde] at h4; rw [← h4] at hsg; simp at hsg
            · simp at hl

theorem elabFields_ok {T : Tables} {R : Reg} : ∀ {fs : List (Name × Name × Option Int)} {xs : List FieldR},
    elabFields T R fs = .ok xs → ∀ x ∈ xs, FieldOk T (aliasNames R) (structNames R) (goodMsgs R.msgs) x
  | [], xs, h, x, hx => by simp [elabFields] at h; subst h; simp at hx
  | f :: fs, xs, h, x, hx => by
    unfold elabFields at h
    split at h
    · simp at h
    · rename_i y hy
      split at h
      · simp at h
      · rename_i ys hys
        simp at h; subst h
        simp only [List.mem_cons] at hx
        rcases hx with rfl | hx
        · exact elabField_ok hy
        · exact elabFields_ok hys x hx

theorem prefix_names_sub {l p q : List DefR} {d : DefR} (h : l = p ++ d :: q) :
    (∀ x ∈ p.map (·.name), x ∈ l.map (·.name)) ∧ (∀ x ∈ goodMsgs p, x ∈ goodMsgs l) := by
  subst h
  constructor
  · intro x hx; simp only [List.map_append, List.mem_append]; exact .inl hx
  · intro x hx; rw [goodMsgs_append]; exact List.mem_append.mpr (.inl hx)

theorem specFields_ok {T : Tables} {R : Reg} (hR : RegOK T R) {sp : FieldsSpec} {fs : List FieldR}
    (h : specFields T R sp = .ok fs) : ∀ x ∈ fs, FieldOk T (aliasNames R) (structNames R) (goodMsgs R.msgs) x := by
  cases sp with
  | list l => exact elabFields_ok h
  | reuse m =>
    simp only [specFields] at h
    split at h
    · rename_i d hd
      simp at h; subst h
      have hm := (find_name (nm := fun a : DefR => a.name) hd).1
      obtain ⟨p, q, hpq, hok⟩ := defsOk_mem hR.ms d hm
      simp only [List.nil_append] at hpq
      intro x hx
      exact (hok x hx).mono (fun _ h => h) (fun _ h => h) (prefix_names_sub hpq).2
    · split at h
      · rename_i d hd
        simp at h; subst h
        have hm := (find_name (nm := fun a : DefR => a.name) hd).1
        obtain ⟨p, q, hpq, hok⟩ := defsOk_mem hR.st d hm
        simp only [List.nil_append] at hpq
        intro x hx
        exact (hok x hx).mono (fun _ h => h) (prefix_names_sub hpq).1 (fun _ h => h)
      · simp at h

theorem rebuild_fields (T : Tables) : ∀ (l : List (Layout.Fld × Nat)) (us : List FieldR) (k : Nat) (x : FieldR),
    x ∈ rebuild T l us k → x ∈ us ∨ (x.kind = .native ∧ x.ty = T.charName)
  | [], _, _, x, h => by simp [rebuild] at h
  | (fl, o) :: r, us, k, x, h => by
    unfold rebuild at h
    split at h
    · simp only [List.mem_cons] at h
      rcases h with rfl | h
      · exact .inr ⟨rfl, rfl⟩
      · exact rebuild_fields T r us (k + 1) x h
    · split at h
      · rename_i u us'
        simp only [List.mem_cons] at h
        rcases h with rfl | h
        · exact .inl (by simp)
        · rcases rebuild_fields T r us' k x h with h | h
          · exact .inl (by simp [h])
          · exact .inr h
      · rcases rebuild_fields T r [] k x h with h | h
        · simp at h
        · exact .inr h

theorem layoutDef_fields {T : Tables} {R : Reg} {ap : Bool} {fs fs' : List FieldR} {al sz : Nat}
    (h : layoutDef T R ap fs = .ok (fs', al, sz)) :
    ∀ x ∈ fs', x ∈ fs ∨ (x.kind = .native ∧ x.ty = T.charName) := by
  unfold layoutDef at h
  split at h
  · simp at h
  · split at h
    · simp at h
    · simp at h
    · split at h
      · simp at h
      · split at h
        · simp at h
        · simp at h
          obtain ⟨rfl, _, _⟩ := h
          exact fun x hx => rebuild_fields T _ _ _ x hx

theorem deltaDef_ok {T : Tables} (hch : isNative T T.charName = true) {R : Reg} (hR : RegOK T R) {ap : Bool}
    {sp : FieldsSpec} {fs' : List FieldR} {al sz : Nat} (h : deltaDef T ap R sp = .ok (fs', al, sz)) :
    ∀ x ∈ fs', FieldOk T (aliasNames R) (structNames R) (goodMsgs R.msgs) x := by
  unfold deltaDef at h
  split at h
  · simp at h
  · rename_i fs hfs
    intro x hx
    rcases layoutDef_fields h x hx with h1 | ⟨hk, ht⟩
    · exact specFields_ok hR hfs x h1
    · unfold FieldOk; rw [hk]; simp only; rw [ht]; exact hch

end Pyrtma.Emit

namespace Pyrtma.Emit

theorem RegOK.push_inert {T : Tables} {R R' : Reg} (h : RegOK T R) (ha : R'.aliases = R.aliases)
    (hs : R'.structs = R.structs) (hm : R'.msgs = R.msgs) : RegOK T R' := by
  refine ⟨?_, ?_, ?_⟩
  · simpa [ha, structNames, hs] using h.al
  · simpa [hs, aliasNames, ha, hm] using h.st
  · simpa [hm, aliasNames, ha, structNames, hs] using h.ms

theorem RegOK.push_alias {T : Tables} {R : Reg} (h : RegOK T R) (a : AliasR)
    (ha : (a.isStruct = true → a.target ∈ structNames R ∧ isNative T a.target = false) ∧
          (a.isStruct = false → isNative T a.target = true)) : RegOK T (R.push (.alias a)) := by
  refine ⟨?_, ?_, ?_⟩
  · intro b hb
    simp only [Reg.push, List.mem_append, List.mem_singleton] at hb
    rcases hb with hb | rfl
    · exact h.al b hb
    · exact ha
  · exact defsOk.mono (fun pre d hd f hf => (hd f hf).mono
      (fun x hx => by simp only [aliasNames, Reg.push, List.map_append, List.mem_append]; exact .inl hx)
      (fun _ hx => hx) (fun _ hx => hx)) h.st
  · exact defsOk.mono (fun pre d hd f hf => (hd f hf).mono
      (fun x hx => by simp only [aliasNames, Reg.push, List.map_append, List.mem_append]; exact .inl hx)
      (fun _ hx => hx) (fun _ hx => hx)) h.ms

theorem RegOK.push_struct {T : Tables} {R : Reg} (h : RegOK T R) (d : DefR)
    (hd : ∀ f ∈ d.fields, FieldOk T (aliasNames R) (structNames R) (goodMsgs R.msgs) f) :
    RegOK T (R.push (.struct d)) := by
  have hsub : ∀ x ∈ structNames R, x ∈ structNames (R.push (.struct d)) := by
    intro x hx; simp only [structNames, Reg.push, List.map_append, List.mem_append]; exact .inl hx
  refine ⟨?_, ?_, ?_⟩
  · intro a ha
    have := h.al a ha
    exact ⟨fun hs => ⟨hsub _ (this.1 hs).1, (this.1 hs).2⟩, this.2⟩
  · show defsOk _ [] (R.structs ++ [d])
    rw [defsOk_snoc]
    exact ⟨h.st, fun f hf => hd f hf⟩
  · exact defsOk.mono (fun pre d' hd' f hf => (hd' f hf).mono (fun _ hx => hx) hsub (fun _ hx => hx)) h.ms

theorem RegOK.push_msg {T : Tables} {R : Reg} (h : RegOK T R) (d : DefR) (id : Int)
    (hd : ∀ f ∈ d.fields, FieldOk T (aliasNames R) (structNames R) (goodMsgs R.msgs) f) :
    RegOK T (R.push (.msg d id)) := by
  refine ⟨h.al, ?_, ?_⟩
  · exact defsOk.mono (fun pre d' hd' f hf => (hd' f hf).mono (fun _ hx => hx) (fun _ hx => hx)
      (fun x hx => by
        show x ∈ goodMsgs (R.msgs ++ [d])
        rw [goodMsgs_append]; exact List.mem_append.mpr (.inl hx))) h.st
  · show defsOk _ [] (R.msgs ++ [d])
    rw [defsOk_snoc]
    exact ⟨h.ms, fun f hf => hd f hf⟩

/-- **`RegOK` is an invariant of the parse** -/
theorem elabItem_regOK {T : Tables} (hch : isNative T T.charName = true) {ap c : Bool} {R R' : Reg} {it : Item}
    (hR : RegOK T R) (h : elabItem T ap c R it = .ok R') : RegOK T R' := by
  obtain ⟨e, he, rfl⟩ := elabItem_ok h
  cases it with
  | const n v => simp [delta] at he; subst he; exact hR.push_inert rfl rfl rfl
  | strConst n v => simp [delta] at he; subst he; exact hR.push_inert rfl rfl rfl
  | hostId n v => simp [delta] at he; subst he; exact hR.push_inert rfl rfl rfl
  | moduleId n v => simp [delta] at he; subst he; exact hR.push_inert rfl rfl rfl
  | alias n t =>
    simp only [delta, deltaAlias] at he
    split at he
    · rename_i nm sz hn
      simp at he; subst he
      exact hR.push_alias _ ⟨by simp, fun _ => by simp [isNative, hn]⟩
    · rename_i hn
      split at he
      · rename_i s hs
        simp at he; subst he
        have := find_name (nm := fun a : DefR => a.name) hs
        exact hR.push_alias _ ⟨fun _ => ⟨by rw [← this.2]; exact List.mem_map.mpr ⟨s, this.1, rfl⟩,
          by simp [isNative, hn]⟩, by simp⟩
      · split at he
        · rename_i a ha
          simp at he; subst he
          exact hR.push_alias _ (hR.al a (find_name (nm := fun a : AliasR => a.name) ha).1)
        · simp at he
  | struct n hs f =>
    simp only [delta] at he
    split at he
    · simp at he
    · rename_i fs' al sz hd
      simp at he; subst he
      exact hR.push_struct _ (deltaDef_ok hch hR hd)
  | message n id hs f =>
    simp only [delta] at he
    split at he
    · simp at he
    · split at he
      · simp at he
      · rename_i fs' al sz hd
        simp at he; subst he
        exact hR.push_msg _ _ (deltaDef_ok hch hR hd)
  | signal n id hs =>
    simp only [delta] at he
    split at he
    · simp at he
    · simp at he; subst he; exact hR.push_msg _ _ (by simp)
  | reserved n id hs =>
    simp only [delta] at he
    split at he
    · simp at he
    · simp at he; subst he; exact hR.push_msg _ _ (by simp)

theorem elaborate_regOK {T : Tables} (hch : isNative T T.charName = true) {ap : Bool} :
    ∀ (l : List (Bool × Item)) {R R' : Reg}, RegOK T R → elaborate T ap l R = .ok R' → RegOK T R'
  | [], R, R', hR, h => by simp [elaborate] at h; subst h; exact hR
  | x :: l, R, R', hR, h => by
    obtain ⟨R1, hx, hl⟩ := elaborate_cons_ok.mp h
    exact elaborate_regOK hch l (elabItem_regOK hch hR hx) hl

end Pyrtma.Emit

namespace Pyrtma.Emit

/-! ## names of the three tables do not overlap -/

structure Disj (R : Reg) : Prop where
  as : ∀ n ∈ aliasNames R, n ∉ structNames R
  am : ∀ n ∈ aliasNames R, n ∉ R.msgs.map (·.name)
  sm : ∀ n ∈ structNames R, n ∉ R.msgs.map (·.name)

theorem disj_of_nodup {R : Reg} (h : (typeNames R).Nodup) : Disj R := by
  simp only [typeNames] at h
  have h1 := List.nodup_append.mp h
  have h2 := List.nodup_append.mp h1.1
  refine ⟨?_, ?_, ?_⟩
  · intro n hn hs; exact h2.2.2 n hn n hs rfl
  · intro n hn hm; exact h1.2.2 n (List.mem_append.mpr (.inl hn)) n hm rfl
  · intro n hn hm; exact h1.2.2 n (List.mem_append.mpr (.inr hn)) n hm rfl

theorem typeNames_push_perm (R : Reg) (e : Entry) :
    (typeNames (R.push e)).Perm (typeNames R ++ e.defName.toList) := by
  cases e with
  | alias a =>
    simp only [typeNames, Reg.push, List.map_append, List.map_cons, List.map_nil, Entry.defName, Option.toList,
      List.append_assoc]
    exact (List.Perm.refl _).append (List.perm_append_comm.trans (by simp))
  | struct d =>
    simp only [typeNames, Reg.push, List.map_append, List.map_cons, List.map_nil, Entry.defName, Option.toList,
      List.append_assoc]
    exact (List.Perm.refl _).append ((List.Perm.refl _).append List.perm_append_comm)
  | msg d id => simp [typeNames, Reg.push, Entry.defName, Option.toList]
  | const n v c => simp [typeNames, Reg.push, Entry.defName, Option.toList]
  | str n v c => simp [typeNames, Reg.push, Entry.defName, Option.toList]
  | host n v c => simp [typeNames, Reg.push, Entry.defName, Option.toList]
  | mod n v c => simp [typeNames, Reg.push, Entry.defName, Option.toList]

theorem elaborate_typeNames {T : Tables} {ap : Bool} : ∀ (l : List (Bool × Item)) {R R' : Reg},
    elaborate T ap l R = .ok R' → (typeNames R').Perm (typeNames R ++ defNames l)
  | [], R, R', h => by simp [elaborate] at h; subst h; simp [defNames]
  | x :: l, R, R', h => by
    obtain ⟨R1, hx, hl⟩ := elaborate_cons_ok.mp h
    obtain ⟨e, he, rfl⟩ := elabItem_ok hx
    refine (elaborate_typeNames l hl).trans ?_
    refine ((typeNames_push_perm R e).append_right _).trans ?_
    rw [(delta_entry he).1, List.append_assoc]
    refine (List.Perm.refl _).append ?_
    simp only [defNames, List.filterMap_cons]
    cases x.2.defName <;> simp [Option.toList]

/-- distinct names in the closure give disjoint tables -/
theorem elaborate_disj {T : Tables} {ap : Bool} {l : List (Bool × Item)} {R : Reg}
    (h : elaborate T ap l {} = .ok R) (hnd : (defNames l).Nodup) : Disj R := by
  apply disj_of_nodup
  have := elaborate_typeNames l h
  simp only [typeNames, List.map_nil, List.append_nil, List.nil_append] at this
  exact this.nodup_iff.mpr hnd

end Pyrtma.Emit
