import Pyrtma.Proofs.ManagerInv
/-!
# Subscriptions of the connections that stay

`IKR p s s'`: every connection `u` (not skipped by `p`) that is in the table of `s'` with an open socket was in the table
of `s` with an open socket, has the same subscription list, and is still listed in the subscription index wherever it
was.  Carried through the nested recursion (contract `IKROK`, no side condition): manager activity removes only the
index entries of the connection it is removing.
-/
namespace Pyrtma.Mgr

def IKR (p : Nat → Bool) (s s' : State) : Prop :=
  ∀ u m', p u = false → s'.find u = some m' → m'.closed = false →
    (∃ m, s.find u = some m ∧ m.closed = false ∧ m'.subs = m.subs) ∧ ∀ t, u ∈ idxGet s.idx t → u ∈ idxGet s'.idx t

theorem IKR.refl (p : Nat → Bool) (s : State) : IKR p s s := fun _ m _ h hc => ⟨⟨m, h, hc, rfl⟩, fun _ h => h⟩

theorem IKR.trans {p : Nat → Bool} {a b c : State} (h1 : IKR p a b) (h2 : IKR p b c) : IKR p a c := fun u m'' hp h hc => by
  obtain ⟨⟨m', hm', hc', hs'⟩, hi2⟩ := h2 u m'' hp h hc
  obtain ⟨⟨m, hm, hc0, hs⟩, hi1⟩ := h1 u m' hp hm' hc'
  exact ⟨⟨m, hm, hc0, hs'.trans hs⟩, fun t ht => hi2 t (hi1 t ht)⟩

theorem IKR.mono {p q : Nat → Bool} {a b : State} (h : IKR p a b) (hpq : ∀ u, q u = false → p u = false) : IKR q a b :=
  fun u m' hq hm hc => h u m' (hpq u hq) hm hc

theorem ikr_same {p : Nat → Bool} {s s' : State} (hm : s'.mods = s.mods) (hi : s'.idx = s.idx) : IKR p s s' :=
  fun u m' _ h hc => by
    have : s.find u = some m' := by unfold State.find at h ⊢; rw [← hm]; exact h
    exact ⟨⟨m', this, hc, rfl⟩, fun t ht => by rw [hi]; exact ht⟩

theorem ikr_crash (p : Nat → Bool) (s : State) (w : String) : IKR p s (s.crash w) := by
  unfold State.crash; split
  · exact IKR.refl p s
  · exact ikr_same rfl rfl

/-- an update of `u`'s entry that keeps `subs` and only ever closes -/
theorem ikr_upd (p : Nat → Bool) (s : State) (u : Nat) (f : Module → Module) (hu : ∀ m, (f m).uid = m.uid)
    (hs : ∀ m, (f m).subs = m.subs) (hc : ∀ m, (f m).closed = false → m.closed = false) : IKR p s (s.upd u f) :=
  fun v m' _ h hcl => by
    rw [find_upd s u v f hu] at h
    cases h0 : s.find v with
    | none => simp [h0] at h
    | some m =>
      simp only [h0, Option.map_some, Option.some.injEq] at h
      refine ⟨⟨m, rfl, ?_, ?_⟩, fun _ ht => ht⟩
      · subst h; split at hcl
        · exact hc m hcl
        · exact hcl
      · subst h; split
        · exact hs m
        · rfl

theorem ikr_dropMod (p : Nat → Bool) (s : State) (u : Nat) : IKR p s { s with mods := s.mods.filter (·.uid != u) } :=
  fun v m' _ h hcl => by
    by_cases hvu : v = u
    · subst hvu
      have : (s.mods.filter (·.uid != v)).find? (·.uid == v) = none := find_filter_eq _ _
      have h' : (s.mods.filter (·.uid != v)).find? (·.uid == v) = some m' := h
      rw [this] at h'; cases h'
    · have h' : (s.mods.filter (·.uid != u)).find? (·.uid == v) = some m' := h
      rw [find_filter_ne _ _ _ hvu] at h'
      exact ⟨⟨m', h', hcl, rfl⟩, fun _ ht => ht⟩

theorem sendRaw_ikr (p : Nat → Bool) (s : State) (u : Nat) (f : Frame) : IKR p s (sendRaw s u f).1 := by
  unfold sendRaw
  split
  · exact ikr_crash _ _ _
  · split
    · exact ikr_crash _ _ _
    · have h1 : IKR p s (s.upd u fun m => { m with msgCount := m.msgCount + 1 }) :=
        ikr_upd p s u _ (fun _ => rfl) (fun _ => rfl) (fun _ h => h)
      dsimp only
      split <;> exact h1.trans (ikr_same rfl rfl)

/-- closing `u` drops `u`'s index entries only -/
theorem removePrep_ikr (p : Nat → Bool) (s : State) (u : Nat) (m : Module) : IKR p s (removePrep s u m) := by
  intro v m' _ h hcl
  rw [removePrep_find] at h
  cases h0 : s.find v with
  | none => simp [h0] at h
  | some m0 =>
    simp only [h0, Option.map_some, Option.some.injEq] at h
    have hv0 := find_uid h0
    by_cases hvu : m0.uid = u
    · exfalso
      simp only [hvu, beq_self_eq_true, if_true] at h
      subst h; simp at hcl
    · have hne : (m0.uid == u) = false := by simpa using hvu
      simp only [hne, Bool.false_eq_true, if_false] at h
      subst h
      refine ⟨⟨m0, rfl, hcl, rfl⟩, fun t ht => ?_⟩
      rw [removePrep_idx, mem_discards]
      exact ⟨ht, fun hx => hvu (hv0.trans hx.2)⟩

def IKROK (fwd : Fwd) : Prop := ∀ (p : Nat → Bool) s g, IKR p s (fwd s g)

section chain
variable {cfg : Cfg} {fwd : Fwd} (hf : IKROK fwd)
include hf

theorem logAt_ikr (p : Nat → Bool) (lvl : Nat) (s : State) : IKR p s (logAt cfg fwd lvl s) := by
  unfold logAt; split
  · exact hf p s _
  · exact IKR.refl p s

theorem removeModule_ikr (p : Nat → Bool) (s : State) (u : Nat) : IKR p s (removeModule cfg fwd s u) := by
  unfold removeModule
  split
  · exact IKR.refl p s
  · rename_i m _
    dsimp only
    exact (((removePrep_ikr p s u m).trans (logAt_ikr hf p 10 _)).trans (hf p _ _)).trans (ikr_dropMod p _ u)

theorem failedMsg_ikr (p : Nat → Bool) (s : State) (d : Int) (f : Frame) : IKR p s (failedMsg cfg fwd s d f) := by
  unfold failedMsg; split
  · exact IKR.refl p s
  · exact hf p s _

theorem trySend_ikr (p : Nat → Bool) (s : State) (u : Nat) (f : Frame) : IKR p s (trySend cfg fwd s u f) := by
  unfold trySend
  dsimp only
  have h1 := sendRaw_ikr p s u f
  generalize sendRaw s u f = r at h1
  obtain ⟨s1, okb⟩ := r
  simp only at h1 ⊢
  split
  · exact h1.trans (ikr_upd p s1 u _ (fun _ => rfl) (fun _ => rfl) (fun _ h => h))
  · split
    · exact h1
    · exact ((h1.trans (removeModule_ikr hf p s1 u)).trans (logAt_ikr hf p 40 _)).trans (failedMsg_ikr hf p _ _ f)

theorem deliverOne_ikr (p : Nat → Bool) (f : Frame) (s : State) (u : Nat) : IKR p s (deliverOne cfg fwd f s u) := by
  unfold deliverOne
  split
  · exact IKR.refl p s
  · split
    · split
      · exact trySend_ikr hf p s u f
      · exact IKR.refl p s
    · split
      · exact trySend_ikr hf p s u f
      · exact (ikr_upd p s u (fun m => { m with drops := m.drops + 1 }) (fun _ => rfl) (fun _ => rfl) (fun _ h => h)).trans
          (failedMsg_ikr hf p _ _ f)

theorem deliver_ikr (p : Nat → Bool) (f : Frame) : ∀ (rs : List Nat) (s : State), IKR p s (deliver cfg fwd f rs s)
  | [], s => IKR.refl p s
  | u :: rest, s => by unfold deliver; exact (deliverOne_ikr hf p f s u).trans (deliver_ikr p f rest _)

end chain

theorem forward_ikr (cfg : Cfg) : ∀ n, IKROK (forward cfg n)
  | 0 => fun p s g => by unfold forward; exact ikr_crash p _ _
  | n + 1 => fun p s g => by
    have ih := forward_ikr cfg n
    have hc : IKR p s (countMsg cfg s g.mtype) := by unfold countMsg; split <;> exact ikr_same rfl rfl
    unfold forward
    split
    · exact IKR.refl p s
    · dsimp only
      split
      · exact hc.trans (logAt_ikr ih p 40 _)
      · split
        · exact hc.trans (logAt_ikr ih p 40 _)
        · exact hc.trans (deliver_ikr ih p g _ _)

theorem fwdTop_ikr (cfg : Cfg) : IKROK (fwdTop cfg) := fun p s g => forward_ikr cfg _ p s g

/-! ## top level -/

abbrev IKRX (u : Nat) (s s' : State) : Prop := IKR (fun v => v == u) s s'

section top
variable (cfg : Cfg)

theorem logTop_ikr (p : Nat → Bool) (lvl : Nat) (s : State) : IKR p s (logAt cfg (fwdTop cfg) lvl s) :=
  logAt_ikr (fwdTop_ikr cfg) p lvl s

theorem removeTop_ikr (p : Nat → Bool) (s : State) (u : Nat) : IKR p s (removeModule cfg (fwdTop cfg) s u) :=
  removeModule_ikr (fwdTop_ikr cfg) p s u

theorem toLoggers_ikr (p : Nat → Bool) (f : Frame) : ∀ (ls : List Nat) (s : State), IKR p s (toLoggers cfg f ls s)
  | [], s => IKR.refl p s
  | u :: rest, s => by
    unfold toLoggers
    refine IKR.trans ?_ (toLoggers_ikr p f rest _)
    unfold loggerOne; split
    · exact IKR.refl p s
    · exact trySend_ikr (fwdTop_ikr cfg) p s u f

theorem sendAck_ikr (p : Nat → Bool) (s : State) (u : Nat) : IKR p s (sendAck cfg s u) := by
  unfold sendAck; split
  · exact IKR.refl p s
  · exact (trySend_ikr (fwdTop_ikr cfg) p s u _).trans (toLoggers_ikr cfg p _ _ _)

theorem infoOf_ikr (p : Nat → Bool) (s : State) (m : Module) : IKR p s (infoOf cfg s m) := by
  unfold infoOf; exact (logTop_ikr cfg p 10 s).trans (fwdTop_ikr cfg p _ _)

theorem sendInfo_ikr (p : Nat → Bool) (s : State) (u : Nat) : IKR p s (sendInfo cfg s u) := by
  unfold sendInfo; split
  · exact IKR.refl p s
  · exact infoOf_ikr cfg p s _

theorem clashLoop_ikr (p : Nat → Bool) (me : Module) : ∀ (os : List Module) (s : State), IKR p s (clashLoop cfg me os s).1
  | [], s => IKR.refl p s
  | o :: rest, s => by
    unfold clashLoop
    split
    · exact IKR.refl p s
    · refine IKR.trans ?_ (clashLoop_ikr p me rest _)
      split
      · exact IKR.refl p s
      · exact logTop_ikr cfg p 10 s

theorem setReq_sc (buf : List Nat) (hd : Hdr) (x : Module) :
    (setReq cfg buf hd x).uid = x.uid ∧ (setReq cfg buf hd x).subs = x.subs ∧ (setReq cfg buf hd x).closed = x.closed := by
  unfold setReq; split <;> exact ⟨rfl, rfl, rfl⟩

theorem setAll_sc (buf : List Nat) (hd : Hdr) (nm : List Nat) (x : Module) :
    (setAll cfg buf hd nm x).uid = x.uid ∧ (setAll cfg buf hd nm x).subs = x.subs ∧ (setAll cfg buf hd nm x).closed = x.closed := by
  unfold setAll; exact setReq_sc cfg buf hd x

/-- a connect request changes no subscription -/
theorem connect_ikr (p : Nat → Bool) (s : State) (u : Nat) (h : Hdr) : IKR p s (connectModule cfg s u h).1 := by
  unfold connectModule
  dsimp only
  have refuse : ∀ {s2 : State}, IKR p s s2 → IKR p s (removeModule cfg (fwdTop cfg) (logAt cfg (fwdTop cfg) 40 s2) u) :=
    fun h2 => (h2.trans (logTop_ikr cfg _ 40 _)).trans (removeTop_ikr cfg _ _ u)
  split
  · exact IKR.refl _ s
  · split
    · exact refuse (ikr_upd p s u _ (fun m => (setReq_sc cfg s.buf h m).1) (fun m => (setReq_sc cfg s.buf h m).2.1)
        (fun m hc => by rw [(setReq_sc cfg s.buf h m).2.2] at hc; exact hc))
    · rename_i nm _
      have h1 : IKR p s (s.upd u (setAll cfg s.buf h nm)) :=
        ikr_upd p s u _ (fun m => (setAll_sc cfg s.buf h nm m).1) (fun m => (setAll_sc cfg s.buf h nm m).2.1)
          (fun m hc => by rw [(setAll_sc cfg s.buf h nm m).2.2] at hc; exact hc)
      split
      · split
        · exact refuse h1
        · have hl := clashLoop_ikr cfg p (setAll cfg s.buf h nm (lookupMod s u))
            ((s.upd u (setAll cfg s.buf h nm)).mods.filter (·.uid != u)) (s.upd u (setAll cfg s.buf h nm))
          generalize clashLoop cfg (setAll cfg s.buf h nm (lookupMod s u))
            ((s.upd u (setAll cfg s.buf h nm)).mods.filter (·.uid != u)) (s.upd u (setAll cfg s.buf h nm)) = r at hl
          obtain ⟨s2, cl⟩ := r
          dsimp only at hl ⊢
          split
          · exact refuse (h1.trans hl)
          · refine IKR.trans ((h1.trans hl).trans (ikr_upd p s2 u (fun m => { m with connected := true }) (fun _ => rfl)
              (fun _ => rfl) (fun _ hc => hc))) ?_
            exact ikr_same rfl rfl
      · split
        · exact refuse h1
        · rename_i id off _
          have h2 : IKR p s ({ (s.upd u (setAll cfg s.buf h nm)) with nextDyn := off } : State) := h1.trans (ikr_same rfl rfl)
          have h3 := h2.trans (ikr_upd p _ u (fun m => { m with modId := id, connected := true }) (fun _ => rfl) (fun _ => rfl)
            (fun _ hc => hc))
          exact h3.trans (ikr_same rfl rfl)

/-- replacing the subscriptions of `u` (index `i'` agrees with the old one on everybody else) keeps everybody else -/
theorem ikrx_setSubs (s : State) (u : Nat) (i' : List (Int × List Nat)) (l : List Int)
    (hi : ∀ t v, v ≠ u → v ∈ idxGet s.idx t → v ∈ idxGet i' t) : IKRX u s (({ s with idx := i' } : State).setSubs u l) :=
  fun v m' hv h hcl => by
    rw [find_setSubs] at h
    have hf0 : ({ s with idx := i' } : State).find v = s.find v := rfl
    rw [hf0] at h
    cases h0 : s.find v with
    | none => simp [h0] at h
    | some m =>
      simp only [h0, Option.map_some, Option.some.injEq] at h
      have hmv := find_uid h0
      have hne : (m.uid == u) = false := by rw [hmv]; exact hv
      simp only [hne, Bool.false_eq_true, if_false] at h
      subst h
      have hvu : v ≠ u := by simpa using hv
      exact ⟨⟨m, rfl, hcl, rfl⟩, fun t ht => hi t v hvu ht⟩

theorem addSubCore_ikrx (s : State) (u : Nat) (t : Int) : IKRX u s (addSubCore cfg s u t) := by
  unfold addSubCore; dsimp only
  split
  · refine ikrx_setSubs s u _ _ (fun t' v hv h => ?_)
    rw [idxAdd_get]
    have : v ∈ idxGet ((lookupMod s u).subs.foldl (fun i t' => idxDiscard i t' u) s.idx) t' := by
      rw [mem_discards]; exact ⟨h, fun hx => hv hx.2⟩
    split
    · rw [mem_setAdd]; exact Or.inl this
    · exact this
  · split
    · exact IKR.refl _ s
    · refine ikrx_setSubs s u _ _ (fun t' v _ h => ?_)
      rw [idxAdd_get]
      split
      · rw [mem_setAdd]; exact Or.inl h
      · exact h

theorem removeSubCore_ikrx (s : State) (u : Nat) (t : Int) : IKRX u s (removeSubCore cfg s u t) := by
  unfold removeSubCore; dsimp only
  split
  · refine ikrx_setSubs s u _ _ (fun t' v hv h => ?_)
    rw [mem_discards, idxDiscard_get]
    refine ⟨?_, fun hx => hv hx.2⟩
    split
    · exact List.mem_filter.mpr ⟨h, by simpa using hv⟩
    · exact h
  · split
    · exact IKR.refl _ s
    · refine ikrx_setSubs s u _ _ (fun t' v hv h => ?_)
      rw [idxDiscard_get]
      split
      · exact List.mem_filter.mpr ⟨h, by simpa using hv⟩
      · exact h

theorem addSub_ikrx (s : State) (u : Nat) (t : Int) : IKRX u s (addSub cfg s u t) := by
  unfold addSub; split
  · exact (addSubCore_ikrx cfg s u t).trans (logTop_ikr cfg _ 10 _)
  · exact addSubCore_ikrx cfg s u t

theorem removeSub_ikrx (s : State) (u : Nat) (t : Int) : IKRX u s (removeSub cfg s u t) := by
  unfold removeSub; split
  · exact (removeSubCore_ikrx cfg s u t).trans (logTop_ikr cfg _ 10 _)
  · exact removeSubCore_ikrx cfg s u t

/-- handling a frame read from `u` changes at most `u`'s subscriptions -/
theorem process_ikrx (s : State) (u : Nat) (h : Hdr) : IKRX u s (processMessage cfg s u h) := by
  unfold processMessage
  dsimp only
  split
  · have hc := connect_ikr cfg (fun v => v == u) s u h
    generalize connectModule cfg s u h = r at hc
    obtain ⟨s1, okb⟩ := r
    simp only at hc ⊢
    split
    · exact ((hc.trans (sendAck_ikr cfg _ s1 u)).trans (infoOf_ikr cfg _ _ _)).trans (logTop_ikr cfg _ 20 _)
    · exact hc
  · split
    · exact (removeTop_ikr cfg _ s u).trans (logTop_ikr cfg _ 20 _)
    · split
      · exact (addSub_ikrx cfg s u _).trans (sendAck_ikr cfg _ _ u)
      · split
        · exact (removeSub_ikrx cfg s u _).trans (sendAck_ikr cfg _ _ u)
        · split
          · split
            · exact (logTop_ikr cfg _ 40 s).trans (removeTop_ikr cfg _ _ u)
            · rename_i nm _
              exact ((ikr_upd _ s u (fun m => { m with name := nm }) (fun _ => rfl) (fun _ => rfl) (fun _ hc => hc)).trans
                (logTop_ikr cfg _ 20 _)).trans (infoOf_ikr cfg _ _ _)
          · split
            · exact (ikr_upd _ s u (fun m => { m with pid := bufI32 s.buf 0 }) (fun _ => rfl) (fun _ => rfl) (fun _ hc => hc)).trans
                (sendInfo_ikr cfg _ _ u)
            · exact (logTop_ikr cfg _ 10 s).trans (fwdTop_ikr cfg _ _ _)

/-- handling a frame that is no (un)subscribe request changes nobody's subscriptions -/
theorem process_ikr_nosub (p : Nat → Bool) (s : State) (u : Nat) (h : Hdr)
    (hns : (h.mtype == cfg.mtConnect || h.mtype == cfg.mtConnectV2) = true ∨ (h.mtype == cfg.mtDisconnect) = true ∨
      ((h.mtype == cfg.mtSubscribe || h.mtype == cfg.mtResume) = false ∧ (h.mtype == cfg.mtUnsubscribe || h.mtype == cfg.mtPause) = false)) :
    IKR p s (processMessage cfg s u h) := by
  unfold processMessage
  dsimp only
  split
  · have hc := connect_ikr cfg p s u h
    generalize connectModule cfg s u h = r at hc
    obtain ⟨s1, okb⟩ := r
    simp only at hc ⊢
    split
    · exact ((hc.trans (sendAck_ikr cfg _ s1 u)).trans (infoOf_ikr cfg _ _ _)).trans (logTop_ikr cfg _ 20 _)
    · exact hc
  · rename_i hc
    split
    · exact (removeTop_ikr cfg _ s u).trans (logTop_ikr cfg _ 20 _)
    · rename_i hd
      have h12 : (h.mtype == cfg.mtSubscribe || h.mtype == cfg.mtResume) = false ∧ (h.mtype == cfg.mtUnsubscribe || h.mtype == cfg.mtPause) = false := by
        rcases hns with h1 | h1 | h1
        · exact absurd h1 hc
        · exact absurd h1 hd
        · exact h1
      simp only [h12.1, h12.2, Bool.false_eq_true, if_false]
      split
      · split
        · exact (logTop_ikr cfg _ 40 s).trans (removeTop_ikr cfg _ _ u)
        · rename_i nm _
          exact ((ikr_upd _ s u (fun m => { m with name := nm }) (fun _ => rfl) (fun _ => rfl) (fun _ hc => hc)).trans
            (logTop_ikr cfg _ 20 _)).trans (infoOf_ikr cfg _ _ _)
      · split
        · exact (ikr_upd _ s u (fun m => { m with pid := bufI32 s.buf 0 }) (fun _ => rfl) (fun _ => rfl) (fun _ hc => hc)).trans
            (sendInfo_ikr cfg _ _ u)
        · exact (logTop_ikr cfg _ 10 s).trans (fwdTop_ikr cfg _ _ _)


theorem foldl_fwd_ikr (p : Nat → Bool) : ∀ (fs : List Frame) (s : State), IKR p s (fs.foldl (fwdTop cfg) s)
  | [], s => IKR.refl p s
  | f :: rest, s => by simp only [List.foldl_cons]; exact (fwdTop_ikr cfg p s f).trans (foldl_fwd_ikr p rest _)

theorem infoAll_ikr (p : Nat → Bool) : ∀ (ms : List Module) (s : State), IKR p s (infoAll cfg ms s)
  | [], s => IKR.refl p s
  | m :: rest, s => by unfold infoAll; exact (infoOf_ikr cfg p s _).trans (infoAll_ikr p rest _)

theorem ticks_ikr (p : Nat → Bool) (s : State) : IKR p s (ticks cfg s) := by
  unfold ticks
  dsimp only
  have h1 : IKR p s (if (cfg.timing && decide (s.now - s.tTiming > cfg.pTiming)) = true then
      { sendTiming cfg s with tTiming := s.now } else s) := by
    split
    · unfold sendTiming; dsimp only
      exact (((ikr_same (s := s) (s' := { s with counts := [], inTraffic := true }) rfl rfl).trans (fwdTop_ikr cfg p _ _)).trans
        (ikr_same rfl rfl)).trans (ikr_same rfl rfl)
    · exact IKR.refl p s
  generalize (if (cfg.timing && decide (s.now - s.tTiming > cfg.pTiming)) = true then
      { sendTiming cfg s with tTiming := s.now } else s) = s1 at h1 ⊢
  have h2 : IKR p s1 (if s1.now - s1.tTraffic > cfg.pTraffic then sendTraffic cfg s1 else s1) := by
    split
    · unfold sendTraffic; dsimp only
      exact (((ikr_same (s := s1) (s' := { s1 with inTraffic := true }) rfl rfl).trans (logTop_ikr cfg p 10 _)).trans
        (foldl_fwd_ikr cfg p _ _)).trans (ikr_same rfl rfl)
    · exact IKR.refl p s1
  generalize (if s1.now - s1.tTraffic > cfg.pTraffic then sendTraffic cfg s1 else s1) = s2 at h2 ⊢
  refine (h1.trans h2).trans ?_
  split
  · unfold sendActive; dsimp only
    exact (((logTop_ikr cfg p 10 s2).trans (infoAll_ikr cfg p _ _)).trans (fwdTop_ikr cfg p _ _)).trans (ikr_same rfl rfl)
  · exact IKR.refl p s2

end top

end Pyrtma.Mgr
