import Pyrtma.Proofs.ManagerOrder
/-!
# Frames of a kind are written only where such a frame is forwarded (I/O part of a round)

The chain of `Proofs/ManagerOrder.lean` (`QE B s s'`: the log grows by events none of which is a `B`-frame) for the
operations of a round, under the weaker hypothesis `CtlIO B` (`B` is false on CLIENT_INFO; where an acknowledgement is sent,
additionally `B .ack = false`): it applies to `B` = "is a TIMING body" / "is a MESSAGE_TRAFFIC body", which `Ctl` excludes.
-/
namespace Pyrtma.Mgr

/-- `B` is false on CLIENT_INFO -/
def CtlIO (B : Body → Bool) : Prop := ∀ a b c d e f, B (.info a b c d e f) = false

theorem dataSends_of_QE {B : Body → Bool} {s s' : State} (h : QE B s s') : dataSends B s'.out = dataSends B s.out := by
  obtain ⟨ext, ho, hq⟩ := h
  rw [ho, dataSends_append, hq]; simp

section top
variable (cfg : Cfg) {B : Body → Bool} (hB : Tag cfg B) (hc : CtlIO B)
include hB hc

theorem fwdTop_QI (s : State) (g : Frame) (hg : B g.body = false) : QE B s (fwdTop cfg s g) :=
  let h := fwdTop_ok cfg (hB) s g hg
  QE_of h.1 h.2

theorem logAt_QI (lvl : Nat) (s : State) : QE B s (logAt cfg (fwdTop cfg) lvl s) := by
  unfold logAt; split
  · exact fwdTop_QI cfg hB hc s _ (hB.2.1 lvl)
  · exact QE.refl B s

theorem trySend_QI (s : State) (u : Nat) (f : Frame) (hf : B f.body = false) : QE B s (trySend cfg (fwdTop cfg) s u f) := by
  have h := trySend_ok cfg (hB) (fwdTop_ok cfg (hB)) s u f
  refine QE_of h.1 ?_
  unfold Quiet
  rw [h.2, hf]; simp

theorem removeModule_QI (s : State) (u : Nat) : QE B s (removeModule cfg (fwdTop cfg) s u) := by
  unfold removeModule
  cases s.find u with
  | none => exact QE.refl B s
  | some m =>
    dsimp only
    have h1 : QE B s (removePrep s u m) := by
      unfold removePrep; dsimp only
      split
      · exact QE_same rfl
      · refine ⟨[.close u], rfl, rfl⟩
    exact ((h1.trans (logAt_QI cfg hB hc 10 _)).trans (fwdTop_QI cfg hB hc _ _ (by simp [closedFrame, mgrFrame, hB.1]))).trans (QE_same rfl)

theorem toLoggers_QI (f : Frame) (hf : B f.body = false) : ∀ (ls : List Nat) (s : State), QE B s (toLoggers cfg f ls s)
  | [], s => QE.refl B s
  | u :: rest, s => by
    unfold toLoggers
    refine QE.trans ?_ (toLoggers_QI f hf rest _)
    unfold loggerOne
    cases s.find u with
    | none => exact QE.refl B s
    | some _ => exact trySend_QI cfg hB hc s u f hf

theorem sendAck_QI (hack : B .ack = false) (s : State) (u : Nat) : QE B s (sendAck cfg s u) := by
  unfold sendAck
  cases s.find u with
  | none => exact QE.refl B s
  | some m => exact (trySend_QI cfg hB hc s u _ hack).trans (toLoggers_QI cfg hB hc _ hack _ _)

theorem infoOf_QI (s : State) (m : Module) : QE B s (infoOf cfg s m) := by
  unfold infoOf; exact (logAt_QI cfg hB hc 10 s).trans (fwdTop_QI cfg hB hc _ _ (hc _ _ _ _ _ _))

theorem sendInfo_QI (s : State) (u : Nat) : QE B s (sendInfo cfg s u) := by
  unfold sendInfo
  cases s.find u with
  | none => exact QE.refl B s
  | some m => exact infoOf_QI cfg hB hc s m

theorem addSub_QI (s : State) (u : Nat) (t : Int) : QE B s (addSub cfg s u t) := by
  have hcore : QE B s (addSubCore cfg s u t) := by
    unfold addSubCore State.setSubs; dsimp only
    split
    · exact QE_same rfl
    · split <;> exact QE_same rfl
  unfold addSub; split
  · exact hcore.trans (logAt_QI cfg hB hc 10 _)
  · exact hcore

theorem removeSub_QI (s : State) (u : Nat) (t : Int) : QE B s (removeSub cfg s u t) := by
  have hcore : QE B s (removeSubCore cfg s u t) := by
    unfold removeSubCore State.setSubs; dsimp only
    split
    · exact QE_same rfl
    · split <;> exact QE_same rfl
  unfold removeSub; split
  · exact hcore.trans (logAt_QI cfg hB hc 10 _)
  · exact hcore

theorem clashLoop_QI (me : Module) : ∀ (os : List Module) (s : State), QE B s (clashLoop cfg me os s).1
  | [], s => QE.refl B s
  | o :: rest, s => by
    unfold clashLoop
    split
    · exact QE.refl B s
    · refine QE.trans ?_ (clashLoop_QI me rest _)
      split
      · exact QE.refl B s
      · exact logAt_QI cfg hB hc 10 s

theorem connect_QI (s : State) (u : Nat) (hd : Hdr) : QE B s (connectModule cfg s u hd).1 := by
  unfold connectModule
  dsimp only
  have refuse : ∀ s0 : State, QE B s s0 → QE B s (removeModule cfg (fwdTop cfg) (logAt cfg (fwdTop cfg) 40 s0) u) :=
    fun s0 h0 => (h0.trans (logAt_QI cfg hB hc 40 _)).trans (removeModule_QI cfg hB hc _ u)
  split
  · exact QE.refl B s
  · split
    · exact refuse _ (QE_same rfl)
    · rename_i nm _
      have h1 : QE B s (s.upd u (setAll cfg s.buf hd nm)) := QE_same rfl
      split
      · split
        · exact refuse _ h1
        · have hl := clashLoop_QI cfg hB hc (setAll cfg s.buf hd nm (lookupMod s u))
            ((s.upd u (setAll cfg s.buf hd nm)).mods.filter (·.uid != u)) (s.upd u (setAll cfg s.buf hd nm))
          generalize clashLoop cfg (setAll cfg s.buf hd nm (lookupMod s u))
            ((s.upd u (setAll cfg s.buf hd nm)).mods.filter (·.uid != u)) (s.upd u (setAll cfg s.buf hd nm)) = r at hl
          obtain ⟨s2, cl⟩ := r
          dsimp only at hl ⊢
          split
          · exact refuse _ (h1.trans hl)
          · exact (h1.trans hl).trans (QE_same rfl)
      · split
        · exact refuse _ h1
        · exact h1.trans (QE_same rfl)

/-- **processing a frame writes copies of that frame only** -/
theorem process_QI (hack : B .ack = false) (s : State) (u : Nat) (hd : Hdr) (hj : B (.data hd.k) = false) : QE B s (processMessage cfg s u hd) := by
  unfold processMessage
  dsimp only
  split
  · have hcn := connect_QI cfg hB hc s u hd
    generalize connectModule cfg s u hd = r at hcn
    obtain ⟨s1, okb⟩ := r
    dsimp only at hcn ⊢
    split
    · exact ((hcn.trans (sendAck_QI cfg hB hc hack s1 u)).trans (infoOf_QI cfg hB hc _ _)).trans (logAt_QI cfg hB hc 20 _)
    · exact hcn
  · split
    · exact (removeModule_QI cfg hB hc s u).trans (logAt_QI cfg hB hc 20 _)
    · split
      · exact (addSub_QI cfg hB hc s u _).trans (sendAck_QI cfg hB hc hack _ u)
      · split
        · exact (removeSub_QI cfg hB hc s u _).trans (sendAck_QI cfg hB hc hack _ u)
        · split
          · split
            · exact (logAt_QI cfg hB hc 40 s).trans (removeModule_QI cfg hB hc _ u)
            · exact ((QE_same (s' := s.upd u _) rfl).trans (logAt_QI cfg hB hc 20 _)).trans (infoOf_QI cfg hB hc _ _)
          · split
            · exact (QE_same (s' := s.upd u _) rfl).trans (sendInfo_QI cfg hB hc _ u)
            · exact (logAt_QI cfg hB hc 10 s).trans (fwdTop_QI cfg hB hc _ _ hj)

theorem readOne_QI (hack : B .ack = false) (s : State) (r : Read) (hj : B (.data r.h.k) = false) : QE B s (readOne cfg s r) := by
  unfold readOne
  split
  · exact QE.refl B s
  · cases s.find r.uid with
    | none => exact QE.refl B s
    | some m =>
      dsimp only
      have h1 : QE B s (s.emit (.rd r.uid)) := QE_emit B s _ (by intro _ _ _ h; cases h)
      have hb : ∀ b, QE B s { (s.emit (.rd r.uid)) with buf := b } := fun b => h1.trans (QE_same rfl)
      have rm : ∀ (s' : State), QE B s s' → ∀ lvl, QE B s (logAt cfg (fwdTop cfg) lvl (removeModule cfg (fwdTop cfg) s' r.uid)) :=
        fun s' h' lvl => (h'.trans (removeModule_QI cfg hB hc s' r.uid)).trans (logAt_QI cfg hB hc lvl _)
      split
      · exact rm _ h1 40
      · split
        · exact rm _ h1 30
        · split
          · exact rm _ h1 30
          · split
            · split
              · exact rm _ h1 40
              · split
                · exact rm _ (hb _) 30
                · exact (hb _).trans (process_QI cfg hB hc hack _ _ _ hj)
            · exact h1.trans (process_QI cfg hB hc hack _ _ _ hj)

theorem foldl_fwd_QI : ∀ (fs : List Frame) (s : State), (∀ f ∈ fs, B f.body = false) → QE B s (fs.foldl (fwdTop cfg) s)
  | [], s, _ => QE.refl B s
  | f :: rest, s, h => by
    simp only [List.foldl_cons]
    exact (fwdTop_QI cfg hB hc s f (h f (by simp))).trans (foldl_fwd_QI rest _ (fun g hg => h g (by simp [hg])))

theorem infoAll_QI : ∀ (ms : List Module) (s : State), QE B s (infoAll cfg ms s)
  | [], s => QE.refl B s
  | m :: rest, s => by unfold infoAll; exact (infoOf_QI cfg hB hc s _).trans (infoAll_QI rest _)

theorem accept_QI (s : State) : QE B s (acceptStep cfg s) := by
  unfold acceptStep
  exact (logAt_QI cfg hB hc 20 s).trans (QE_same rfl)

/-- the periodic section: only the three reports carry a statistics / ACTIVE_CLIENTS body -/
theorem ticks_QI (s : State) (h1 : ∀ a b, B (.timing a b) = false) (h2 : ∀ a b c d, B (.traffic a b c d) = false)
    (h3 : ∀ a b c, B (.active a b c) = false) : QE B s (ticks cfg s) := by
  unfold ticks
  have g1 : QE B s (if cfg.timing && s.now - s.tTiming > cfg.pTiming then { sendTiming cfg s with tTiming := s.now } else s) := by
    split
    · unfold sendTiming
      exact ((QE_same (s' := { s with counts := [], inTraffic := true }) rfl).trans (fwdTop_QI cfg hB hc _ _ (h1 _ _))).trans (QE_same rfl)
    · exact QE.refl B s
  generalize (if cfg.timing && s.now - s.tTiming > cfg.pTiming then { sendTiming cfg s with tTiming := s.now } else s) = s1 at g1
  dsimp only
  have g2 : QE B s1 (if s1.now - s1.tTraffic > cfg.pTraffic then sendTraffic cfg s1 else s1) := by
    split
    · unfold sendTraffic
      refine (((QE_same (s' := { s1 with inTraffic := true }) rfl).trans (logAt_QI cfg hB hc 10 _)).trans
        (foldl_fwd_QI cfg hB hc _ _ ?_)).trans (QE_same rfl)
      intro f hf
      unfold trafficFrames at hf
      obtain ⟨p, _, rfl⟩ := List.mem_map.mp hf
      exact h2 _ _ _ _
    · exact QE.refl B s1
  generalize (if s1.now - s1.tTraffic > cfg.pTraffic then sendTraffic cfg s1 else s1) = s2 at g2
  refine (g1.trans g2).trans ?_
  split
  · unfold sendActive
    exact (((logAt_QI cfg hB hc 10 s2).trans (infoAll_QI cfg hB hc _ _)).trans (fwdTop_QI cfg hB hc _ _ (h3 _ _ _))).trans (QE_same rfl)
  · exact QE.refl B s2

end top

/-- **a frame of kind `B` is written only as the frame being forwarded**: every `B`-frame in the log after `forward`
    was there before, or is the forwarded frame itself -/
theorem forward_sends_self (cfg : Cfg) {B : Body → Bool} (hB : Tag cfg B) (n : Nat) (s : State) (f : Frame) :
    ∀ p ∈ dataSends B (forward cfg n s f).out, p ∈ dataSends B s.out ∨ p.2 = f := by
  cases n with
  | zero => intro p hp; left; simpa [forward] using hp
  | succ n =>
    have ih := forward_ok cfg hB n
    unfold forward
    split
    · intro p hp; exact Or.inl hp
    · have qc : dataSends B (countMsg cfg s f.mtype).out = dataSends B s.out := by rw [countMsg_out]
      dsimp only
      split
      · intro p hp; left
        rw [(logAt_ok cfg hB ih 40 (countMsg cfg s f.mtype)).2, qc] at hp; exact hp
      · split
        · intro p hp; left
          rw [(logAt_ok cfg hB ih 40 (countMsg cfg s f.mtype)).2, qc] at hp; exact hp
        · intro p hp
          rw [(deliver_ok cfg hB ih f _ (countMsg cfg s f.mtype)).2, qc] at hp
          rcases List.mem_append.mp hp with h | h
          · exact Or.inl h
          · right
            split at h
            · obtain ⟨u, _, rfl⟩ := List.mem_map.mp h; rfl
            · cases h

theorem fwdTop_sends_self (cfg : Cfg) {B : Body → Bool} (hB : Tag cfg B) (s : State) (f : Frame) :
    ∀ p ∈ dataSends B (fwdTop cfg s f).out, p ∈ dataSends B s.out ∨ p.2 = f :=
  forward_sends_self cfg hB _ s f

def isTimingB : Body → Bool
  | .timing _ _ => true
  | _ => false

theorem tag_timing (cfg : Cfg) : Tag cfg isTimingB := ⟨by intros; rfl, by intros; rfl, by intros; rfl⟩
theorem ctlIO_timing : CtlIO isTimingB := by intro _ _ _ _ _ _; rfl

def isTrafficB : Body → Bool
  | .traffic _ _ _ _ => true
  | _ => false

theorem tag_traffic (cfg : Cfg) : Tag cfg isTrafficB := ⟨by intros; rfl, by intros; rfl, by intros; rfl⟩
theorem ctlIO_traffic : CtlIO isTrafficB := by intro _ _ _ _ _ _; rfl

/-- the I/O part of a round writes no `B`-frame when `B` is false on acknowledgements, CLIENT_INFO and client data -/
theorem io_QI (cfg : Cfg) {B : Body → Bool} (hB : Tag cfg B) (hc : CtlIO B) (hack : B .ack = false)
    (hd : ∀ k, B (.data k) = false) (s : State) (a : Bool) (w : List Nat) (rs : List Read) :
    QE B s (ioStep cfg s a w rs) := by
  unfold ioStep
  split
  · dsimp only
    have ha : QE B s (if a then acceptStep cfg s else s) := by
      split
      · exact accept_QI cfg hB hc _
      · exact QE.refl B s
    have hw : ∀ wl, QE B s { (if a then acceptStep cfg s else s) with wlist := wl } := fun wl => ha.trans (QE_same rfl)
    have hr : ∀ (rds : List Read) (s0 : State), QE B s0 (readAll cfg rds s0) := by
      intro rds
      induction rds with
      | nil => intro s0; exact QE.refl B s0
      | cons rd rest ih => intro s0; unfold readAll; exact (readOne_QI cfg hB hc hack s0 rd (hd _)).trans (ih _)
    exact (hw _).trans (hr _ _)
  · exact QE.refl B s

end Pyrtma.Mgr
