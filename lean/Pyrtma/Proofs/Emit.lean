import Pyrtma.Props.C11
import Pyrtma.Spec.Emit
/-!
# Invariants of the registries built by `Emit.elaborate`

`RegWf`: every alias, struct and message of the registry (and every field stored in a definition) has an
alignment of 1, 2, 4 or 8 that divides its size — exactly the hypothesis `wfInput` under which the C11
theorems about `check_alignment` hold; it is what lets the layout results apply at every nesting depth.
-/
namespace Pyrtma.Emit
open Pyrtma.Layout

def AlDiv (a s : Nat) : Prop := Al a ∧ s % a = 0

/-- the sizes in `supported_types` are 1, 2, 4 or 8 -/
def TablesWf (T : Tables) : Prop := ∀ r ∈ T.natives, Al r.2.2

structure RegWf (R : Reg) : Prop where
  al : ∀ a ∈ R.aliases, AlDiv a.align a.esize
  st : ∀ d ∈ R.structs, AlDiv d.align d.size ∧ ∀ f ∈ d.fields, AlDiv f.align f.esize
  ms : ∀ d ∈ R.msgs, AlDiv d.align d.size ∧ ∀ f ∈ d.fields, AlDiv f.align f.esize

theorem regWf_empty : RegWf {} := ⟨by simp, by simp, by simp⟩

theorem assoc_mem {β} {l : List (Name × β)} {k : Name} {v : β} (h : assoc l k = some v) : (k, v) ∈ l := by
  unfold assoc at h
  cases hf : l.find? (fun p => p.1 == k) with
  | none => simp [hf] at h
  | some p =>
    simp [hf] at h
    have hm := List.mem_of_find?_eq_some hf
    have hk := List.find?_some hf
    simp at hk
    cases p; simp_all

theorem alDiv_self {s : Nat} (h : Al s) : AlDiv s s := ⟨h, Nat.mod_self s⟩

theorem lookupTy_wf {T : Tables} {R : Reg} (hT : TablesWf T) (hR : RegWf R) {ty : Name} {k al es sg}
    (h : lookupTy T R ty = some (k, al, es, sg)) : AlDiv al es := by
  unfold lookupTy at h
  split at h
  · rename_i nm sz hn
    simp at h; obtain ⟨_, rfl, rfl, _⟩ := h
    exact alDiv_self (hT _ (assoc_mem hn))
  · split at h
    · rename_i a ha
      simp at h; obtain ⟨_, rfl, rfl, _⟩ := h
      exact hR.al a (List.mem_of_find?_eq_some ha)
    · split at h
      · rename_i s hs
        simp at h; obtain ⟨_, rfl, rfl, _⟩ := h
        exact (hR.st s (List.mem_of_find?_eq_some hs)).1
      · split at h
        · rename_i d hd
          simp at h; obtain ⟨_, rfl, rfl, _⟩ := h
          exact (hR.ms d (List.mem_of_find?_eq_some hd)).1
        · simp at h

theorem elabField_wf {T : Tables} {R : Reg} (hT : TablesWf T) (hR : RegWf R) {f x}
    (h : elabField T R f = .ok x) : AlDiv x.align x.esize := by
  unfold elabField at h
  split at h
  · simp at h
  · rename_i k al es sg hl
    have := lookupTy_wf hT hR hl
    split at h
    · simp at h
    · split at h
      · simp at h; subst h; exact this
      · split at h
        · simp at h
        · simp at h; subst h; exact this

theorem elabFields_wf {T : Tables} {R : Reg} (hT : TablesWf T) (hR : RegWf R) :
    ∀ {fs xs}, elabFields T R fs = .ok xs → ∀ x ∈ xs, AlDiv x.align x.esize
  | [], xs, h => by simp [elabFields] at h; subst h; simp
  | f :: fs, xs, h => by
    unfold elabFields at h
    split at h
    · simp at h
    · rename_i x hx
      split at h
      · simp at h
      · rename_i xs' hxs
        simp at h; subst h
        intro y hy
        simp at hy
        rcases hy with rfl | hy
        · exact elabField_wf hT hR hx
        · exact elabFields_wf hT hR hxs y hy

theorem specFields_wf {T : Tables} {R : Reg} (hT : TablesWf T) (hR : RegWf R) {sp fs}
    (h : specFields T R sp = .ok fs) : ∀ x ∈ fs, AlDiv x.align x.esize := by
  unfold specFields at h
  split at h
  · exact elabFields_wf hT hR h
  · split at h
    · rename_i d hd
      simp at h; subst h
      exact (hR.ms d (List.mem_of_find?_eq_some hd)).2
    · split at h
      · rename_i d hd
        simp at h; subst h
        exact (hR.st d (List.mem_of_find?_eq_some hd)).2
      · simp at h

theorem toFld_wf {fs : List FieldR} (h : ∀ x ∈ fs, AlDiv x.align x.esize) : wfInput (fs.map FieldR.toFld) = true := by
  unfold wfInput
  simp only [List.all_eq_true, List.mem_map]
  rintro f ⟨x, hx, rfl⟩
  obtain ⟨ha, hd⟩ := h x hx
  unfold Al at ha
  simp [Fld.wf, FieldR.toFld, hd]
  omega

theorem rebuild_mem (T : Tables) : ∀ (l : List (Fld × Nat)) (us : List FieldR) (k : Nat) (x : FieldR),
    x ∈ rebuild T l us k → x ∈ us ∨ (x.align = 1 ∧ x.esize = 1)
  | [], _, _, x, h => by simp [rebuild] at h
  | (fl, o) :: r, us, k, x, h => by
    unfold rebuild at h
    split at h
    · simp at h
      rcases h with rfl | h
      · right; simp
      · exact rebuild_mem T r us (k + 1) x h
    · split at h
      · rename_i u us'
        simp at h
        rcases h with rfl | h
        · left; simp
        · rcases rebuild_mem T r us' k x h with h | h
          · left; simp [h]
          · right; exact h
      · rcases rebuild_mem T r [] k x h with h | h
        · simp at h
        · right; exact h

/-- `validate` is `checkAlignment` followed by the size limit -/
theorem validate_of_check {ap : Bool} {fs : List Fld} {o : Out} (hne : fs.isEmpty = false)
    (hc : checkAlignment ap fs = .ok o) (hs : ¬ o.size > 65535) : validate ap fs = .ok o := by
  unfold validate; simp [hne, hc, hs]

theorem layoutDef_wf {T : Tables} {R : Reg} {ap : Bool} {fs fs' : List FieldR} {al sz : Nat}
    (hf : ∀ x ∈ fs, AlDiv x.align x.esize) (h : layoutDef T R ap fs = .ok (fs', al, sz)) :
    AlDiv al sz ∧ ∀ x ∈ fs', AlDiv x.align x.esize := by
  unfold layoutDef at h
  split at h
  · simp at h
  · rename_i hne
    split at h
    · simp at h
    · simp at h
    · rename_i o hc
      split at h
      · simp at h
      · split at h
        · simp at h
        · rename_i hs
          simp at h
          obtain ⟨rfl, rfl, rfl⟩ := h
          have hw := toFld_wf hf
          have hne' : (fs.map FieldR.toFld).isEmpty = false := by cases fs <;> simp_all
          have hv := validate_of_check hne' hc hs
          have hn := C11.nested_wf hw hv none
          constructor
          · have := wf_al hn
            exact ⟨this.1, this.2.1⟩
          · intro x hx
            rcases rebuild_mem T _ _ _ x hx with h | ⟨h1, h2⟩
            · exact hf x h
            · rw [h1, h2]; exact ⟨Or.inl rfl, by simp⟩

theorem elabItem_wf {T : Tables} {ap core : Bool} {R R' : Reg} {it : Item} (hT : TablesWf T) (hR : RegWf R)
    (h : elabItem T ap core R it = .ok R') : RegWf R' := by
  cases it with
  | const n v => simp [elabItem] at h; subst h; exact ⟨hR.al, hR.st, hR.ms⟩
  | strConst n s => simp [elabItem] at h; subst h; exact ⟨hR.al, hR.st, hR.ms⟩
  | hostId n v => simp [elabItem] at h; subst h; exact ⟨hR.al, hR.st, hR.ms⟩
  | moduleId n v => simp [elabItem] at h; subst h; exact ⟨hR.al, hR.st, hR.ms⟩
  | alias n t =>
    simp only [elabItem] at h
    unfold elabAlias at h
    split at h
    · rename_i nm sz hn
      simp at h; subst h
      refine ⟨?_, hR.st, hR.ms⟩
      intro a ha; simp at ha
      rcases ha with ha | rfl
      · exact hR.al a ha
      · exact alDiv_self (hT _ (assoc_mem hn))
    · split at h
      · rename_i s hs
        simp at h; subst h
        refine ⟨?_, hR.st, hR.ms⟩
        intro a ha; simp at ha
        rcases ha with ha | rfl
        · exact hR.al a ha
        · exact (hR.st s (List.mem_of_find?_eq_some hs)).1
      · split at h
        · rename_i a0 ha0
          simp at h; subst h
          refine ⟨?_, hR.st, hR.ms⟩
          intro a ha; simp at ha
          rcases ha with ha | rfl
          · exact hR.al a ha
          · exact hR.al a0 (List.mem_of_find?_eq_some ha0)
        · simp at h
  | struct n hsh f =>
    simp only [elabItem] at h
    split at h
    · simp at h
    · rename_i fs hfs
      split at h
      · simp at h
      · rename_i fs' al sz hl
        simp at h; subst h
        have := layoutDef_wf (specFields_wf hT hR hfs) hl
        refine ⟨hR.al, ?_, hR.ms⟩
        intro d hd; simp at hd
        rcases hd with hd | rfl
        · exact hR.st d hd
        · exact this
  | message n id hsh f =>
    simp only [elabItem] at h
    split at h
    · simp at h
    · split at h
      · simp at h
      · rename_i fs hfs
        split at h
        · simp at h
        · rename_i fs' al sz hl
          simp at h; subst h
          have := layoutDef_wf (specFields_wf hT hR hfs) hl
          refine ⟨hR.al, hR.st, ?_⟩
          intro d hd; simp at hd
          rcases hd with hd | rfl
          · exact hR.ms d hd
          · exact this
  | signal n id hsh =>
    simp only [elabItem] at h
    split at h
    · simp at h
    simp at h; subst h
    refine ⟨hR.al, hR.st, ?_⟩
    intro d hd; simp at hd
    rcases hd with hd | rfl
    · exact hR.ms d hd
    · exact ⟨⟨by unfold Al; simp, by simp⟩, by simp⟩
  | reserved n id hsh =>
    simp only [elabItem] at h
    split at h
    · simp at h
    simp at h; subst h
    refine ⟨hR.al, hR.st, ?_⟩
    intro d hd; simp at hd
    rcases hd with hd | rfl
    · exact hR.ms d hd
    · exact ⟨⟨by unfold Al; simp, by simp⟩, by simp⟩

theorem elaborate_wf {T : Tables} {ap : Bool} (hT : TablesWf T) :
    ∀ (items : List (Bool × Item)) (R R' : Reg), RegWf R → elaborate T ap items R = .ok R' → RegWf R'
  | [], R, R', hR, h => by simp [elaborate] at h; subst h; exact hR
  | (c, it) :: r, R, R', hR, h => by
    unfold elaborate at h
    split at h
    · simp at h
    · rename_i R1 h1
      exact elaborate_wf hT r R1 R' (elabItem_wf hT hR h1) h

/-- the parser's own ctypes table knows every native type (`NativeType.name`) and `char` (padding) -/
def TablesCt (T : Tables) : Prop :=
  (∀ r ∈ T.natives, T.parserCt.contains r.2.1 = true) ∧ T.parserCt.contains T.charName = true

theorem ctOk_true {T : Tables} (hC : TablesCt T) (R : Reg) (fs : List FieldR) : ctOk T R fs = true := by
  unfold ctOk
  simp only [List.all_eq_true]
  intro f _
  split
  · rename_i k hk
    unfold ctKey at hk
    split at hk
    · cases hn : assoc T.natives f.ty with
      | none => simp [hn] at hk
      | some v => simp [hn] at hk; subst hk; exact hC.1 _ (assoc_mem hn)
    · split at hk
      · rename_i a _
        split at hk
        · simp at hk
        · cases hn : assoc T.natives a.target with
          | none => simp [hn] at hk
          | some v => simp [hn] at hk; subst hk; exact hC.1 _ (assoc_mem hn)
      · simp at hk
    · simp at hk
  · rfl

end Pyrtma.Emit

namespace Pyrtma.Emit
open Pyrtma.Layout

/-! ### The registry's field list is the accepted member list of M6 (padding made explicit) -/

def erase (f : Fld) : Fld := { f with isPad := false }

theorem erase_size (f : Fld) : (erase f).size = f.size := rfl

theorem cOffsets_erase : ∀ (l : List Fld) (p : Nat), cOffsets (l.map erase) p = cOffsets l p
  | [], p => rfl
  | f :: l, p => by
    have ha : (erase f).align = f.align := rfl
    simp [cOffsets, cOffsets_erase l, erase_size, ha]

theorem cAlignof_erase (l : List Fld) : cAlignof (l.map erase) = cAlignof l := by
  unfold cAlignof
  generalize 1 = m
  induction l generalizing m with
  | nil => rfl
  | cons f l ih => simp [List.foldl, ih]; rfl

theorem cSizeof_erase (l : List Fld) : cSizeof (l.map erase) = cSizeof l := by
  unfold cSizeof; rw [cOffsets_erase, cAlignof_erase]

theorem packedOffsets_erase : ∀ (l : List Fld) (p : Nat), packedOffsets (l.map erase) p = packedOffsets l p
  | [], p => rfl
  | f :: l, p => by simp [packedOffsets, packedOffsets_erase l, erase_size]

theorem packed_offsets : ∀ (l : List (Fld × Nat)) (p : Nat), packed l p = true →
    l.map (·.2) = packedOffsets (l.map (·.1)) p
  | [], p, _ => rfl
  | (f, o) :: l, p, h => by
    simp [packed] at h
    simp [packedOffsets, h.1, packed_offsets l (p + f.size) h.2]

theorem rebuild_toFld (T : Tables) : ∀ (l : List (Fld × Nat)) (us : List FieldR) (k : Nat),
    userFields l = us.map FieldR.toFld → padsAreChar l = true →
    (rebuild T l us k).map FieldR.toFld = (l.map (·.1)).map erase
  | [], us, k, _, _ => by simp [rebuild]
  | (fl, o) :: r, us, k, hu, hp => by
    have hp' : padsAreChar r = true := by
      unfold padsAreChar at hp ⊢; simp only [List.all_cons, Bool.and_eq_true] at hp; exact hp.2
    unfold rebuild
    by_cases hpad : fl.isPad = true
    · have hu' : userFields r = us.map FieldR.toFld := by
        simpa [userFields, List.filter_cons, hpad] using hu
      have hc : fl.align = 1 ∧ fl.esize = 1 := by
        unfold padsAreChar at hp; simp [hpad] at hp; exact hp.1
      simp only [hpad, if_true, List.map_cons]
      rw [rebuild_toFld T r us (k + 1) hu' hp']
      congr 1
      cases fl; simp_all [FieldR.toFld, erase]
    · have hpad' : fl.isPad = false := by simpa using hpad
      have hu0 : fl :: userFields r = us.map FieldR.toFld := by
        simpa [userFields, List.filter_cons, hpad'] using hu
      cases us with
      | nil => simp at hu0
      | cons u us' =>
        simp at hu0
        simp only [hpad', List.map_cons]
        simp only [Bool.false_eq_true, if_false]
        rw [List.map_cons, rebuild_toFld T r us' k hu0.2 hp']
        congr 1
        rw [← hu0.1]; cases fl; simp_all [erase]

/-- **No hidden padding, for every definition the parser stores.**  Whatever `validate_msg_def` accepts, the member
list kept in the registry (user fields plus the explicit `padding_k_` fields), laid out by the natural-alignment
rule of a C compiler / ctypes, has exactly the packed offsets, `sizeof` = the recorded size, `_Alignof` = the recorded
alignment. -/
theorem layoutDef_layout {T : Tables} {R : Reg} {ap : Bool} {fs fs' : List FieldR} {al sz : Nat}
    (hf : ∀ x ∈ fs, AlDiv x.align x.esize) (h : layoutDef T R ap fs = .ok (fs', al, sz)) :
    (cOffsets (fs'.map FieldR.toFld) 0).1 = packedOffsets (fs'.map FieldR.toFld) 0 ∧
    cSizeof (fs'.map FieldR.toFld) = sz ∧ cAlignof (fs'.map FieldR.toFld) = al := by
  unfold layoutDef at h
  split at h
  · simp at h
  · rename_i hne
    split at h
    · simp at h
    · simp at h
    · rename_i o hc
      split at h
      · simp at h
      · split at h
        · simp at h
        · rename_i hs
          simp at h
          obtain ⟨rfl, rfl, rfl⟩ := h
          have hw := toFld_wf hf
          have hne' : (fs.map FieldR.toFld).isEmpty = false := by cases fs <;> simp_all
          have hv := validate_of_check hne' hc hs
          obtain ⟨_, _, _, hpk, _, _, _, hus, hpd, _, _⟩ := C11.accepted_facts hw hv
          obtain ⟨h1, h2, h3⟩ := C11.no_hidden_padding hw hv
          rw [rebuild_toFld T o.fields fs 0 hus hpd, cOffsets_erase, cSizeof_erase, cAlignof_erase,
              packedOffsets_erase, h1, h2, h3]
          exact ⟨packed_offsets o.fields 0 hpk, rfl, rfl⟩

/-- every definition of the registry has the "C layout = packed layout = recorded size" property -/
def Reg.layoutOk (R : Reg) : Prop := (∀ d ∈ R.structs, d.layoutOk = true) ∧ (∀ d ∈ R.msgs, d.layoutOk = true)

theorem layoutOk_of {n id hsh core} {fs' : List FieldR} {al sz : Nat}
    (h : (cOffsets (fs'.map FieldR.toFld) 0).1 = packedOffsets (fs'.map FieldR.toFld) 0 ∧
      cSizeof (fs'.map FieldR.toFld) = sz ∧ cAlignof (fs'.map FieldR.toFld) = al) :
    DefR.layoutOk { name := n, id := id, hash := hsh, fields := fs', align := al, size := sz, core := core } = true := by
  simp [DefR.layoutOk, DefR.flds, h.1, h.2.1, h.2.2]

theorem elabItem_layout {T : Tables} {ap core : Bool} {R R' : Reg} {it : Item} (hT : TablesWf T) (hR : RegWf R)
    (hL : R.layoutOk) (h : elabItem T ap core R it = .ok R') : R'.layoutOk := by
  cases it with
  | const n v => simp [elabItem] at h; subst h; exact hL
  | strConst n s => simp [elabItem] at h; subst h; exact hL
  | hostId n v => simp [elabItem] at h; subst h; exact hL
  | moduleId n v => simp [elabItem] at h; subst h; exact hL
  | alias n t =>
    simp only [elabItem] at h
    unfold elabAlias at h
    split at h
    · simp at h; subst h; exact hL
    · split at h
      · simp at h; subst h; exact hL
      · split at h
        · simp at h; subst h; exact hL
        · simp at h
  | struct n hsh f =>
    simp only [elabItem] at h
    split at h
    · simp at h
    · rename_i fs hfs
      split at h
      · simp at h
      · rename_i fs' al sz hl
        simp at h; subst h
        refine ⟨?_, hL.2⟩
        intro d hd; simp at hd
        rcases hd with hd | rfl
        · exact hL.1 d hd
        · exact layoutOk_of (layoutDef_layout (specFields_wf hT hR hfs) hl)
  | message n id hsh f =>
    simp only [elabItem] at h
    split at h
    · simp at h
    · split at h
      · simp at h
      · rename_i fs hfs
        split at h
        · simp at h
        · rename_i fs' al sz hl
          simp at h; subst h
          refine ⟨hL.1, ?_⟩
          intro d hd; simp at hd
          rcases hd with hd | rfl
          · exact hL.2 d hd
          · exact layoutOk_of (layoutDef_layout (specFields_wf hT hR hfs) hl)
  | signal n id hsh =>
    simp only [elabItem] at h
    split at h
    · simp at h
    simp at h; subst h
    refine ⟨hL.1, ?_⟩
    intro d hd; simp at hd
    rcases hd with hd | rfl
    · exact hL.2 d hd
    · simp [DefR.layoutOk]
  | reserved n id hsh =>
    simp only [elabItem] at h
    split at h
    · simp at h
    simp at h; subst h
    refine ⟨hL.1, ?_⟩
    intro d hd; simp at hd
    rcases hd with hd | rfl
    · exact hL.2 d hd
    · simp [DefR.layoutOk]

theorem elaborate_layout {T : Tables} {ap : Bool} (hT : TablesWf T) :
    ∀ (items : List (Bool × Item)) (R R' : Reg), RegWf R → R.layoutOk → elaborate T ap items R = .ok R' → R'.layoutOk
  | [], R, R', _, hL, h => by simp [elaborate] at h; subst h; exact hL
  | (c, it) :: r, R, R', hR, hL, h => by
    unfold elaborate at h
    split at h
    · simp at h
    · rename_i R1 h1
      exact elaborate_layout hT r R1 R' (elabItem_wf hT hR h1) (elabItem_layout hT hR hL h1) h

end Pyrtma.Emit
