import Pyrtma.Proofs.ManagerStatsTiming
import Pyrtma.Drv.Manager
/-!
# Whole histories: the model state and the Spec's abstract state after the same rounds

`mrPair cfg rs`: the model plays the rounds `rs` the way the driver's `modelRun` does (the event log starts afresh every
round), and `Spec.round` judges each round on the model's own events.  `RInv` holds of the pair after any history.
-/
namespace Pyrtma.Mgr
open Spec

/-- model state and abstract Spec state after the rounds `rs` (the Spec judging the model's own events) -/
def mrPair (cfg : Cfg) (rs : List Round) : State × A :=
  rs.foldl (fun p r => (stepR cfg p.1 r, round cfg p.2 r (stepR cfg p.1 r).out)) (init cfg, ({} : A))

theorem mrPair_snoc (cfg : Cfg) (rs : List Round) (r : Round) :
    mrPair cfg (rs ++ [r]) = (stepR cfg (mrPair cfg rs).1 r, round cfg (mrPair cfg rs).2 r (stepR cfg (mrPair cfg rs).1 r).out) := by
  unfold mrPair; rw [List.foldl_append]; rfl

section withcfg
variable {cfg : Cfg} (ok : CfgOK cfg) (hfuel : cfg.fuel = 0)
include ok hfuel

theorem rinv_init : RInv cfg (init cfg) ({} : A) := by
  have hI : MInv cfg (init cfg) := ⟨top_init ok hfuel, init_K cfg, init_statInv cfg⟩
  refine ⟨hI, ?_, ⟨(fun _ h => by cases h), (fun _ h => by cases h)⟩, (fun _ h => by cases h)⟩
  -- the state before the "initialized" log line
  let s0 : State := { mods := [{ uid := 0, name := "message_manager".toList.map (·.toNat), pid := cfg.mmPid, connected := true }] }
  have hd0 : UidsDistinct s0 := by simp [UidsDistinct, s0]
  have hS0 : Sim cfg s0 ({} : A) := by
    refine ⟨rfl, rfl, rfl, rfl, rfl, rfl, rfl, (fun _ h => by cases h), rfl, rfl, rfl, rfl, ?_, ?_, (fun _ h => by cases h)⟩
    · intro m hm h0; simp [s0] at hm; subst hm; exact absurd rfl h0
    · intro m hm _; simp [s0] at hm; subst hm; rfl
  obtain ⟨e, hE⟩ := logTop_ev cfg 20 hd0
  obtain ⟨mk, hA⟩ := logAt_macc cfg 20 s0
  have := sim_step hE hA (cliMarks_mgr cfg hA.marks) (logTop_rk cfg _ 20 s0) (logTop_ikr cfg _ 20 s0) hI.k.distinct hI.top.aopen hS0
  have he : applyDepartures ({} : A) e = ({} : A) := by rw [applyDepartures_eq]; simp [depMods_eq_map]
  rw [he] at this
  exact this

/-- **after any history of rounds the generator can produce, the invariant holds** between the model state and the Spec's
    abstract state -/
theorem rinv_all (hna : MgrNotAll cfg) (hord : OrderGood cfg) (rs : List Round) (hrs : ∀ r ∈ rs, RoundOK r) :
    RInv cfg (mrPair cfg rs).1 (mrPair cfg rs).2 := by
  have : ∀ (rs : List Round) (p : State × A), RInv cfg p.1 p.2 → (∀ r ∈ rs, RoundOK r) →
      RInv cfg (rs.foldl (fun p r => (stepR cfg p.1 r, round cfg p.2 r (stepR cfg p.1 r).out)) p).1
        (rs.foldl (fun p r => (stepR cfg p.1 r, round cfg p.2 r (stepR cfg p.1 r).out)) p).2 := by
    intro rs
    induction rs with
    | nil => intro p h _; exact h
    | cons r rs ih =>
      intro p h hr
      simp only [List.foldl_cons]
      exact ih _ (round_inv ok hfuel h hna hord r (hr r (by simp))) (fun r' hr' => hr r' (by simp [hr']))
  exact this rs _ (rinv_init ok hfuel) hrs

end withcfg

end Pyrtma.Mgr
