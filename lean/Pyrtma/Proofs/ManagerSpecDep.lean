import Pyrtma.Proofs.ManagerSpecFrame
import Pyrtma.Proofs.ManagerNotice
/-!
# Refinement of the history-based Spec by the manager model M1 — part 2b: the departure clauses, Spec side

`checkDepartures_c07`: the six C07 clauses of `Spec.checkDepartures` stated as facts about the events of the segment and
the abstract table; when they hold, `checkDepartures` can only add `"C14"` entries.
-/
namespace Pyrtma.Mgr.Spec
open Pyrtma.Mgr

/-- the (recipient, departed connection) pairs of the CLIENT_CLOSED frames written in `evs` -/
def noticesOf (evs : List Ev) : List (Nat × Nat) :=
  (sends evs).filterMap (fun (p : Nat × Nat × Frame) => match p.2.2.body with
      | .closed v .. => some (p.1, v) | _ => none)

theorem noticesOf_cons_send (o c : Nat) (f : Frame) (evs : List Ev) :
    noticesOf (Ev.send o c f :: evs) =
      (match f.body with | .closed v .. => [(o, v)] | _ => []) ++ noticesOf evs := by
  unfold noticesOf sends
  simp only [List.filterMap_cons]
  cases f.body <;> rfl

theorem noticesOf_cons_other (e : Ev) (evs : List Ev) (he : ∀ o c f, e ≠ .send o c f) :
    noticesOf (e :: evs) = noticesOf evs := by
  unfold noticesOf sends
  cases e with
  | send o c f => exact absurd rfl (he o c f)
  | _ => rfl

theorem mem_noticesOf (evs : List Ev) (o v : Nat) :
    (o, v) ∈ noticesOf evs ↔ ∃ c f, Ev.send o c f ∈ evs ∧ aboutClosed v f.body = true := by
  induction evs with
  | nil => simp [noticesOf, sends]
  | cons e rest ih =>
    cases e with
    | send o' c' f' =>
      rw [noticesOf_cons_send, List.mem_append, ih]
      constructor
      · rintro (h | ⟨c, f, hm, hb⟩)
        · cases hb : f'.body <;> simp [hb] at h
          obtain ⟨rfl, rfl⟩ := h
          exact ⟨c', f', by simp, by simp [hb, aboutClosed]⟩
        · exact ⟨c, f, by simp [hm], hb⟩
      · rintro ⟨c, f, hm, hb⟩
        rcases List.mem_cons.mp hm with h | h
        · injection h with h1 h2 h3
          subst h1; subst h3
          left
          cases hb' : f.body <;> simp [hb', aboutClosed] at hb ⊢
          exact hb.symm
        · exact Or.inr ⟨c, f, h, hb⟩
    | _ =>
      rw [noticesOf_cons_other _ _ (by intro _ _ _ h; cases h), ih]
      constructor
      · rintro ⟨c, f, hm, hb⟩; exact ⟨c, f, by simp [hm], hb⟩
      · rintro ⟨c, f, hm, hb⟩
        rcases List.mem_cons.mp hm with h | h
        · cases h
        · exact ⟨c, f, h, hb⟩

theorem noticesOf_count (evs : List Ev) (o v : Nat) :
    ((noticesOf evs).filter (fun p => p.1 == o && p.2 == v)).length = nTo evs o v := by
  induction evs with
  | nil => rfl
  | cons e rest ih =>
    unfold nTo at ih ⊢
    cases e with
    | send o' c' f' =>
      rw [noticesOf_cons_send, List.filter_append, List.length_append, ih, List.countP_cons, Nat.add_comm]
      congr 1
      cases hb : f'.body <;> simp [isNotice, aboutClosed, hb]
      rename_i w _ _ _ _ _
      by_cases h1 : o' = o <;> by_cases h2 : w = v <;> simp [h1, h2]
    | _ =>
      rw [noticesOf_cons_other _ _ (by intro _ _ _ h; cases h), ih, List.countP_cons]
      simp [isNotice]

theorem mem_wfails (evs : List Ev) (u : Nat) : u ∈ wfails evs ↔ Ev.wfail u ∈ evs := by
  unfold wfails
  rw [List.mem_filterMap]
  constructor
  · rintro ⟨e, he, h⟩
    cases e <;> simp at h
    subst h; exact he
  · intro h; exact ⟨_, h, rfl⟩

theorem mem_closes_iff (evs : List Ev) (u : Nat) : u ∈ closes evs ↔ Ev.close u ∈ evs := by
  unfold closes
  rw [List.mem_filterMap]
  constructor
  · rintro ⟨e, he, h⟩
    cases e <;> simp at h
    subst h; exact he
  · intro h; exact ⟨_, h, rfl⟩

theorem count_closes (evs : List Ev) (v : Nat) : count (closes evs) v = closeCnt evs v := by
  unfold count closes closeCnt
  induction evs with
  | nil => rfl
  | cons e rest ih =>
    rw [List.countP_cons, ← ih]
    cases e <;> simp [isClose, List.filter_cons]
    rename_i u
    by_cases h : u = v <;> simp [h]

/-- the modules that are owed a CLIENT_CLOSED notice about every connection closed in `evs` -/
def isObserver (cfg : Cfg) (a : A) (evs : List Ev) (m : AMod) : Bool :=
  m.alive && subscribed m cfg.mtClosed && ready a m && !a.failing m.uid && !(closes evs).contains m.uid

theorem checkDepartures_c07 (cfg : Cfg) (a : A) (md : Option Nat) (evs : List Ev)
    (h1 : ∀ u, md = some u → Ev.close u ∈ evs)
    (h2 : ∀ v, Ev.close v ∈ evs → md = some v ∨ Ev.wfail v ∈ evs)
    (h3 : ∀ v, Ev.wfail v ∈ evs → Ev.close v ∈ evs)
    (h4 : ∀ v, closeCnt evs v ≤ 1)
    (h5 : ∀ o c f v, Ev.send o c f ∈ evs → aboutClosed v f.body = true → Ev.close v ∈ evs)
    (h6 : ∀ v, Ev.close v ∈ evs → ∀ o ∈ a.mods, isObserver cfg a evs o = true → o.uid ≠ v → nTo evs o.uid v = 1) :
    ErrExt ["C14"] a (checkDepartures cfg a md evs) := by
  unfold checkDepartures
  extract_lets xs wf a1 a2 a3 a4 notices a5 observers a6 owed fobs
  have hx : ∀ v, xs.contains v = true ↔ Ev.close v ∈ evs := fun v => by
    rw [List.contains_iff_mem, mem_closes_iff]
  have hw : ∀ v, wf.contains v = true ↔ Ev.wfail v ∈ evs := fun v => by
    rw [List.contains_iff_mem, mem_wfails]
  have e1 : a1 = a := by
    simp only [a1]
    split
    · rename_i u; exact chk_of _ _ _ _ ((hx u).mpr (h1 u rfl))
    · rfl
  have e2 : a2 = a := by
    simp only [a2]; rw [e1]
    refine foldl_fix _ _ _ (fun v hv => chk_of _ _ _ _ ?_)
    rw [Bool.or_eq_true]
    rcases h2 v ((mem_closes_iff evs v).mp hv) with h | h
    · left; simp [h]
    · right; exact (hw v).mpr h
  have e3 : a3 = a := by
    simp only [a3]; rw [e2]
    exact foldl_fix _ _ _ (fun v hv => chk_of _ _ _ _ ((hx v).mpr (h3 v ((mem_wfails evs v).mp hv))))
  have e4 : a4 = a := by
    simp only [a4]; rw [e3]
    refine chk_of _ _ _ _ ?_
    rw [List.all_eq_true]
    intro v hv
    have hc := count_closes evs v
    have hpos : 0 < closeCnt evs v := by
      unfold closeCnt; exact List.countP_pos_iff.mpr ⟨_, (mem_closes_iff evs v).mp hv, by simp [isClose]⟩
    have := h4 v
    simp only [beq_iff_eq]
    show count (closes evs) v = 1
    omega
  have hnot : notices = noticesOf evs := rfl
  have e5 : a5 = a := by
    simp only [a5]; rw [e4]
    refine foldl_fix _ _ _ (fun p hp => chk_of _ _ _ _ ?_)
    rw [hnot] at hp
    obtain ⟨o, v⟩ := p
    obtain ⟨c, f, hm, hb⟩ := (mem_noticesOf evs o v).mp hp
    exact (hx v).mpr (h5 o c f v hm hb)
  have e6 : a6 = a := by
    simp only [a6]; rw [e5]
    refine foldl_fix _ _ _ (fun v hv => foldl_fix _ _ _ (fun o ho => ?_))
    split
    · rfl
    · rename_i hne
      refine chk_of _ _ _ _ ?_
      have hmem : o ∈ observers := ho
      simp only [observers] at hmem
      rw [e5] at hmem
      obtain ⟨hom, hob⟩ := List.mem_filter.mp hmem
      rw [hnot, noticesOf_count]
      simp only [beq_iff_eq]
      exact h6 v ((mem_closes_iff evs v).mp hv) o hom hob (by simpa using hne)
  have h0 : ErrExt ["C14"] a a6 := by rw [e6]; exact ErrExt.refl _ _
  exact h0.trans (errExt_foldl _ _ (fun x y => errExt_foldl _ _ (fun x' y' => errExt_chk _ _ _ _ _ (by simp)) _ _) _ _)

/-! ## the C14 clause of `checkDepartures` -/

/-- the subscribers of CLIENT_CLOSED that cannot be handed one and stay -/
def dowed (cfg : Cfg) (a : A) (evs : List Ev) : List AMod :=
  a.mods.filter (fun m => m.alive && subscribed m cfg.mtClosed && !m.isLogger && !a.w.contains m.uid &&
    !a.wAny.contains m.uid && !(closes evs).contains m.uid)

/-- who must hear about it -/
def dfobs (cfg : Cfg) (a : A) (evs : List Ev) : List AMod :=
  a.mods.filter (fun m => m.alive && subscribed m cfg.mtFailed && ready a m && !a.failing m.uid &&
    !(closes evs).contains m.uid)

/-- **`checkDepartures` adds no C14 entry** when every observer got one notice per departure and owed subscriber -/
theorem checkDepartures_c14 (cfg : Cfg) (a : A) (md : Option Nat) (evs : List Ev)
    (h7 : ∀ o ∈ dfobs cfg a evs, ∀ m ∈ dowed cfg a evs,
      (closes evs).length * ((dowed cfg a evs).filter (·.modId == m.modId)).length ≤
        ((sends evs).filter (fun p => p.1 == o.uid && p.2.2.body == .failed m.modId cfg.mtClosed 0 0)).length) :
    ErrExt ["C07"] a (checkDepartures cfg a md evs) := by
  unfold checkDepartures
  extract_lets xs wf a1 a2 a3 a4 notices a5 observers a6 owed fobs
  have c : ∀ (x : A) (b : Bool) (m : String), ErrExt ["C07"] x (x.chk b "C07" m) :=
    fun x b m => errExt_chk _ _ _ _ _ (by simp)
  have x1 : ErrExt ["C07"] a a1 := by
    simp only [a1]; split
    · exact c _ _ _
    · exact ErrExt.refl _ _
  have x2 : ErrExt ["C07"] a a2 := x1.trans (errExt_foldl _ _ (fun x y => c _ _ _) _ _)
  have x3 : ErrExt ["C07"] a a3 := x2.trans (errExt_foldl _ _ (fun x y => c _ _ _) _ _)
  have x4 : ErrExt ["C07"] a a4 := x3.trans (c _ _ _)
  have x5 : ErrExt ["C07"] a a5 := x4.trans (errExt_foldl _ _ (fun x y => c _ _ _) _ _)
  have x6 : ErrExt ["C07"] a a6 := x5.trans (errExt_foldl _ _ (fun x y => errExt_foldl _ _ (fun x' y' => by
    split
    · exact ErrExt.refl _ _
    · exact c _ _ _) _ _) _ _)
  have hm6 := x6.mods
  have hw6 := x6.w
  have hf6 := x6.fail
  have how : owed = dowed cfg a evs := by
    show List.filter _ a6.mods = _
    unfold dowed
    rw [hm6, hw6, x6.wAny]
  have hfo : fobs = dfobs cfg a evs := by
    show List.filter _ a6.mods = _
    unfold dfobs ready A.failing
    rw [hm6, hw6, hf6]
  refine x6.trans ?_
  have hrefl : ∀ y : A, y = a6 → ErrExt ["C07"] a6 y := fun y e => by rw [e]; exact ErrExt.refl _ _
  apply hrefl
  apply foldl_fix
  intro o ho
  apply foldl_fix
  intro m hm
  refine chk_of _ _ _ _ ?_
  rw [how]
  exact decide_eq_true (h7 o (by rw [← hfo]; exact ho) m (by rw [← how]; exact hm))

/-! ## a connection that leaves on the read side is not written to any more -/

theorem segment_broken_c07 (cfg : Cfg) (a : A) (rd : Read) (evs : List Ev) (m : AMod) (hget : a.get rd.uid = some m)
    (hal : m.alive = true) (hb : brokenRd cfg rd = true) (ht : ∀ e ∈ evs, touches rd.uid e = false) :
    segment cfg a rd evs =
      applyDepartures (checkDepartures cfg (checkAcks cfg (afterBuf cfg a rd) rd.uid false evs) (some rd.uid) evs) evs := by
  unfold segment
  unfold brokenRd at hb
  simp only [hget, hal, Bool.not_true, Bool.false_eq_true, if_false, hb, if_true]
  rw [afterBuf_eq]
  unfold A.chk
  split
  · rfl
  · rename_i h
    exfalso
    apply h
    simp only [Bool.not_eq_true', List.any_eq_false]
    intro e he
    have := ht e he
    cases e <;> simp_all [touches]

theorem segment_disconnect_c07 (cfg : Cfg) (a : A) (rd : Read) (evs : List Ev) (m : AMod) (hget : a.get rd.uid = some m)
    (hal : m.alive = true) (hb : brokenRd cfg rd = false)
    (hc : (rd.h.mtype == cfg.mtConnect || rd.h.mtype == cfg.mtConnectV2) = false)
    (hd : (rd.h.mtype == cfg.mtDisconnect) = true) (ht : ∀ e ∈ evs, touches rd.uid e = false) :
    segment cfg a rd evs =
      applyDepartures (checkDepartures cfg (checkAcks cfg (afterBuf cfg a rd) rd.uid false evs) (some rd.uid) evs) evs := by
  unfold segment
  unfold brokenRd at hb
  simp only [hget, hal, Bool.not_true, Bool.false_eq_true, if_false, hb, hc, hd, if_true]
  rw [afterBuf_eq]
  unfold A.chk
  split
  · rfl
  · rename_i h
    exfalso
    apply h
    simp only [Bool.not_eq_true', List.any_eq_false]
    intro e he
    have := ht e he
    cases e <;> simp_all [touches]

/-! ## the whole-history clause: nothing is written to a connection after it failed / was closed -/

/-- `checkC05` when no malformed frame is among the frames sent and no connection is written to after its first failed
    write or its close: nothing is reported under C03 or C07 -/
theorem checkC05_c37 (a : A) (all : List Ev) (senderOf : Nat → Nat)
    (hb : (sends all).filter (fun p => brokenFrame p.2.2) = [])
    (hafter : ∀ u, (sends ((all.dropWhile (fun e => !(e == .wfail u || e == .close u))).drop 1)).any (·.1 == u) = false) :
    ErrExt ["C05"] a (checkC05 a all senderOf) := by
  unfold checkC05
  extract_lets broken a1 a2 uids a3 a4
  have hbe : broken = [] := hb
  have e1 : a1 = a := by show a.chk _ _ _ = a; exact chk_of _ _ _ _ (by rw [hbe]; rfl)
  have e2 : a2 = a := by show a1.chk _ _ _ = a; rw [e1]; exact chk_of _ _ _ _ (by rw [hbe]; rfl)
  have h3 : ErrExt ["C05"] a a3 := by
    show ErrExt _ a (List.foldl _ a2 uids)
    rw [e2]
    exact errExt_foldl _ _ (fun x y => by
      dsimp only
      rw [chk_of _ _ "C07" _ (by rw [hafter y]; rfl)]
      exact errExt_chk _ _ _ _ _ (by simp)) _ _
  have h4 : ErrExt ["C05"] a a4 := h3.foldl _ _ (fun x y =>
    errExt_foldl _ _ (fun x' y' => errExt_chk _ _ _ _ _ (by simp)) _ _)
  refine h4.foldl _ _ (fun x y => errExt_foldl _ _ (fun x' y' => ?_) _ _)
  split
  · exact ErrExt.refl _ _
  · exact errExt_chk _ _ _ _ _ (by simp)

/-! ## C14: a logger is waited for (`checkLoggerWaited`) -/

/-- frames that are not routed as data: nothing to check -/
theorem checkLoggerWaited_skip (cfg : Cfg) (X : A) (rd : Read) (evs : List Ev)
    (h : brokenRd cfg rd = true ∨ isControl cfg rd.h.mtype = true) : checkLoggerWaited cfg X rd evs = X := by
  unfold checkLoggerWaited
  cases X.get rd.uid with
  | none => rfl
  | some m =>
    dsimp only
    rw [if_pos]
    unfold brokenRd at h
    rcases h with h | h
    · rw [h]; simp
    · rw [h]; simp

/-- `checkLoggerWaited` follows from the "every eligible subscriber gets exactly one copy" clause of C01: a logger that
    subscribes to the type is eligible whether its connection is writable or not -/
theorem checkLoggerWaited_of_c01 (cfg : Cfg) (X a0 : A) (rd : Read) (evs : List Ev)
    (hm : X.mods = a0.mods) (hf : X.fail = a0.fail)
    (c3 : rd.h.mtype ≠ cfg.allTypes → ∀ m ∈ dexpected cfg a0 rd.h, ((dmine rd.h.k evs).filter (·.1 == m.uid)).length = 1) :
    checkLoggerWaited cfg X rd evs = X := by
  unfold checkLoggerWaited
  cases X.get rd.uid with
  | none => rfl
  | some m =>
    dsimp only
    split
    · rfl
    · rename_i hcond
      simp only [Bool.or_eq_true, Bool.not_eq_true', not_or, Bool.not_eq_true, Bool.not_eq_false, beq_iff_eq] at hcond
      obtain ⟨⟨⟨⟨_, _⟩, _⟩, hir⟩, hta⟩ := hcond
      refine foldl_fix _ _ _ (fun l hl => chk_of _ _ _ _ ?_)
      obtain ⟨hlm, hlp⟩ := List.mem_filter.mp hl
      simp only [Bool.and_eq_true, Bool.not_eq_eq_eq_not, Bool.not_true] at hlp
      obtain ⟨⟨⟨⟨hal, hlg⟩, hsub⟩, _⟩, hnf⟩ := hlp
      have hexp : l ∈ dexpected cfg a0 rd.h := by
        unfold dexpected inRangeH
        rw [if_pos (by simpa using hir)]
        refine List.mem_filter.mpr ⟨List.mem_filter.mpr ⟨by rw [← hm]; exact hlm, by simp [hal, hsub]⟩, ?_⟩
        have : a0.failing l.uid = false := by unfold A.failing at hnf ⊢; rw [← hf]; exact hnf
        simp [ready, destOK, hlg, this]
      have h1 := c3 (by simpa using hta) l hexp
      have hne : (dmine rd.h.k evs).filter (·.1 == l.uid) ≠ [] := by
        intro h0; rw [h0] at h1; cases h1
      obtain ⟨p, hp⟩ := List.exists_mem_of_ne_nil _ hne
      obtain ⟨hp1, hp2⟩ := List.mem_filter.mp hp
      rw [List.any_eq_true]
      refine ⟨p, List.mem_filter.mpr ⟨?_, ?_⟩, hp2⟩
      · unfold dmine dcopies at hp1
        exact (List.mem_filter.mp (List.mem_filter.mp hp1).1).1
      · unfold dmine at hp1
        exact (List.mem_filter.mp hp1).2

end Pyrtma.Mgr.Spec
