import Pyrtma.Proofs.ManagerInv
/-! Crash-freedom of the manager model: no write to a closed socket, enough fuel, in every reachable state. -/
namespace Pyrtma.Mgr

/-- number of table entries whose socket is open -/
def live (s : State) : Nat := s.mods.countP (fun m => !m.closed)

/-- a module that is closed but still in the table (it is in the middle of `remove_module`) is in no subscriber list
    and not in the logger set -/
def ClosedOut (s : State) : Prop :=
  ∀ u m, s.find u = some m → m.closed = true → (∀ t, u ∉ idxGet s.idx t) ∧ u ∉ s.loggers

structure Good (cfg : Cfg) (s : State) : Prop where
  inv : SubInv cfg s
  cout : ClosedOut s
  ok : s.crashed = none

/-- closed-but-present modules of `s'` were already closed-but-present in `s` -/
def NoNewClosed (s s' : State) : Prop :=
  ∀ u m', s'.find u = some m' → m'.closed = true → ∃ m, s.find u = some m ∧ m.closed = true

structure Step (s s' : State) : Prop where
  live : live s' ≤ live s
  nnc : NoNewClosed s s'
  idxsub : ∀ t u, u ∈ idxGet s'.idx t → u ∈ idxGet s.idx t

theorem Step.refl (s : State) : Step s s := ⟨Nat.le_refl _, fun _ m h c => ⟨m, h, c⟩, fun _ _ h => h⟩
theorem Step.trans {a b c : State} (h1 : Step a b) (h2 : Step b c) : Step a c :=
  ⟨Nat.le_trans h2.live h1.live, fun u m'' h c => by
    obtain ⟨m', hm', c'⟩ := h2.nnc u m'' h c; exact h1.nnc u m' hm' c',
   fun t u h => h1.idxsub t u (h2.idxsub t u h)⟩

/-- same table, same index, same loggers, same crash flag -/
theorem good_of_same {cfg : Cfg} {s s' : State} (h : Good cfg s) (hm : s'.mods = s.mods) (hi : s'.idx = s.idx)
    (hl : s'.loggers = s.loggers) (hc : s'.crashed = s.crashed) : Good cfg s' ∧ Step s s' := by
  have hf : ∀ u, s'.find u = s.find u := fun u => by unfold State.find; rw [hm]
  refine ⟨⟨subInv_of_same h.inv hi (fun u => by rw [hf]), fun u m hu c => ?_, hc.trans h.ok⟩,
          ⟨by unfold live; rw [hm]; exact Nat.le_refl _, fun u m' hu c => ⟨m', by rw [← hf]; exact hu, c⟩,
           fun t u h => by rw [← hi]; exact h⟩⟩
  rw [hf] at hu; rw [hi, hl]; exact h.cout u m hu c

theorem live_map (l : List Module) (g : Module → Module) (hg : ∀ m, (g m).closed = m.closed) :
    (l.map g).countP (fun m => !m.closed) = l.countP (fun m => !m.closed) := by
  induction l with
  | nil => rfl
  | cons a l ih => simp only [List.map_cons, List.countP_cons, hg, ih]

/-- an update that keeps `uid`, `subs` and `closed` -/
theorem good_upd {cfg : Cfg} {s : State} (h : Good cfg s) (u : Nat) (f : Module → Module)
    (hu : ∀ m, (f m).uid = m.uid) (hs : ∀ m, (f m).subs = m.subs) (hc : ∀ m, (f m).closed = m.closed) :
    Good cfg (s.upd u f) ∧ Step s (s.upd u f) := by
  have hfind := fun v => find_upd s u v f hu
  refine ⟨⟨subInv_upd h.inv u f hu hs, fun v m hv c => ?_, h.ok⟩, ⟨?_, fun v m' hv c => ?_, fun _ _ h => h⟩⟩
  · rw [hfind] at hv
    cases h0 : s.find v with
    | none => simp [h0] at hv
    | some m0 =>
      simp only [h0, Option.map_some, Option.some.injEq] at hv
      have : m0.closed = true := by subst hv; split at c <;> simp_all
      exact h.cout v m0 h0 this
  · unfold live State.upd
    exact Nat.le_of_eq (live_map s.mods _ (fun m => by split <;> simp [hc]))
  · rw [hfind] at hv
    cases h0 : s.find v with
    | none => simp [h0] at hv
    | some m0 =>
      simp only [h0, Option.map_some, Option.some.injEq] at hv
      refine ⟨m0, rfl, ?_⟩; subst hv; split at c <;> simp_all

theorem good_emit {cfg : Cfg} {s : State} (h : Good cfg s) (e : Ev) : Good cfg (s.emit e) ∧ Step s (s.emit e) :=
  good_of_same h rfl rfl rfl rfl

theorem good_count {cfg : Cfg} {s : State} (h : Good cfg s) (t : Int) :
    Good cfg (countMsg cfg s t) ∧ Step s (countMsg cfg s t) := by
  unfold countMsg; split
  · exact good_of_same h rfl rfl rfl rfl
  · exact good_of_same h rfl rfl rfl rfl

/-- a write to a module that is in the table with an open socket never crashes -/
theorem sendRaw_good {cfg : Cfg} {s : State} (h : Good cfg s) (u : Nat) (f : Frame) (m : Module)
    (hm : s.find u = some m) (hc : m.closed = false) :
    Good cfg (sendRaw s u f).1 ∧ Step s (sendRaw s u f).1 := by
  unfold sendRaw
  simp only [hm, hc, Bool.false_eq_true, if_false]
  have h1 := good_upd h u (fun m => { m with msgCount := m.msgCount + 1 }) (fun _ => rfl) (fun _ => rfl) (fun _ => rfl)
  split
  · have h2 := good_emit h1.1 (.wfail u); exact ⟨h2.1, h1.2.trans h2.2⟩
  · have h2 := good_emit h1.1 (.partialW u)
    have h3 := good_emit h2.1 (.wfail u)
    exact ⟨h3.1, (h1.2.trans h2.2).trans h3.2⟩
  · have h2 := good_emit h1.1 (.send u (m.msgCount + 1) f); exact ⟨h2.1, h1.2.trans h2.2⟩

theorem sendRaw_find {s : State} (u : Nat) (f : Frame) (m : Module) (hm : s.find u = some m) (hc : m.closed = false) :
    ∃ m1, (sendRaw s u f).1.find u = some m1 ∧ m1.closed = false ∧ m1.subs = m.subs := by
  unfold sendRaw
  simp only [hm, hc, Bool.false_eq_true, if_false]
  have := find_upd_self s u (fun m => { m with msgCount := m.msgCount + 1 }) (fun _ => rfl) hm
  split <;> exact ⟨{ m with msgCount := m.msgCount + 1 }, this, hc, rfl⟩

/-! ## the fuel measure -/

def oor (cfg : Cfg) (f : Frame) : Bool :=
  (f.dest < 0 || f.dest > cfg.maxModules) || (f.destHost < 0 || f.destHost > cfg.maxHosts)

def gcost (cfg : Cfg) (f : Frame) : Nat := if inGuard cfg f.mtype then 0 else 1

/-- fuel that forwarding `f` in state `s` may need: every level of nesting either drops a live module or is the single
    hop to a FAILED_MESSAGE / RTMA_LOG forward (which cannot hop again) -/
def need (cfg : Cfg) (s : State) (f : Frame) : Nat := 2 * live s + gcost cfg f + (if oor cfg f then 1 else 0) + 1

/-- what the model needs of the constants (instantiated at the values of the source tree) -/
structure CfgOK (cfg : Cfg) : Prop where
  closedNotGuard : inGuard cfg cfg.mtClosed = false
  modsNonneg : 0 ≤ cfg.maxModules
  hostsNonneg : 0 ≤ cfg.maxHosts
  order : ∀ (l : List Nat) x, x ∈ cfg.order l → x ∈ l

/-- the nested-forward contract for crash-freedom -/
def Safe (cfg : Cfg) (fwd : Fwd) (n : Nat) : Prop :=
  ∀ s g, Good cfg s → need cfg s g ≤ n → Good cfg (fwd s g) ∧ Step s (fwd s g)

theorem guard_log (cfg : Cfg) (lvl : Nat) : inGuard cfg (logType cfg lvl) = true := by
  unfold inGuard logType
  simp only [Bool.or_eq_true, beq_iff_eq, Bool.and_eq_true, decide_eq_true_eq]
  right; (repeat' split) <;> constructor <;> omega

theorem need_log (cfg : Cfg) (ok : CfgOK cfg) (s : State) (lvl : Nat) : need cfg s (logFrame cfg lvl) = 2 * live s + 1 := by
  unfold need gcost oor logFrame mgrFrame
  simp only [guard_log, if_true]
  have h1 := ok.modsNonneg; have h2 := ok.hostsNonneg
  have : ((decide ((0:Int) < 0) || decide ((0:Int) > cfg.maxModules)) || (decide ((0:Int) < 0) || decide ((0:Int) > cfg.maxHosts))) = false := by
    simp; omega
  simp [h1, h2]

theorem need_failed (cfg : Cfg) (ok : CfgOK cfg) (s : State) (d : Int) (f : Frame) :
    need cfg s (failedFrame cfg d f) = 2 * live s + 1 := by
  unfold need gcost oor failedFrame mgrFrame
  have hg : inGuard cfg cfg.mtFailed = true := by unfold inGuard; simp
  simp only [hg, if_true]
  have h1 := ok.modsNonneg; have h2 := ok.hostsNonneg
  have : ((decide ((0:Int) < 0) || decide ((0:Int) > cfg.maxModules)) || (decide ((0:Int) < 0) || decide ((0:Int) > cfg.maxHosts))) = false := by
    simp; omega
  simp [h1, h2]

theorem need_closed (cfg : Cfg) (ok : CfgOK cfg) (s : State) (m : Module) :
    need cfg s (closedFrame cfg m) = 2 * live s + 2 := by
  unfold need gcost oor closedFrame mgrFrame
  simp only [ok.closedNotGuard, Bool.false_eq_true, if_false]
  have h1 := ok.modsNonneg; have h2 := ok.hostsNonneg
  have : ((decide ((0:Int) < 0) || decide ((0:Int) > cfg.maxModules)) || (decide ((0:Int) < 0) || decide ((0:Int) > cfg.maxHosts))) = false := by
    simp; omega
  simp [h1, h2]

theorem logAt_safe {cfg : Cfg} (ok : CfgOK cfg) {fwd : Fwd} {n : Nat} (hs : Safe cfg fwd n) (lvl : Nat) {s : State}
    (h : Good cfg s) (hb : 2 * live s + 1 ≤ n) : Good cfg (logAt cfg fwd lvl s) ∧ Step s (logAt cfg fwd lvl s) := by
  unfold logAt; split
  · exact hs s _ h (by rw [need_log cfg ok]; exact hb)
  · exact ⟨h, Step.refl s⟩

theorem failedMsg_safe {cfg : Cfg} (ok : CfgOK cfg) {fwd : Fwd} {n : Nat} (hs : Safe cfg fwd n) {s : State}
    (h : Good cfg s) (d : Int) (f : Frame) (hb : 2 * live s + gcost cfg f ≤ n) :
    Good cfg (failedMsg cfg fwd s d f) ∧ Step s (failedMsg cfg fwd s d f) := by
  unfold failedMsg; split
  · exact ⟨h, Step.refl s⟩
  · rename_i hg
    have : gcost cfg f = 1 := by unfold gcost; simp [hg]
    exact hs s _ h (by rw [need_failed cfg ok]; omega)

/-! ## removal -/

def closeFn (u : Nat) (x : Module) : Module := if x.uid == u then { x with closed := true, connected := false } else x

theorem countP_close_le (l : List Module) (u : Nat) :
    (l.map (closeFn u)).countP (fun m => !m.closed) ≤ l.countP (fun m => !m.closed) := by
  induction l with
  | nil => exact Nat.le_refl _
  | cons a l ih =>
    rw [List.map_cons, List.countP_cons, List.countP_cons]
    have : (if (!(closeFn u a).closed) = true then 1 else 0) ≤ (if (!a.closed) = true then 1 else 0) := by
      unfold closeFn; cases h1 : (a.uid == u) <;> cases h2 : a.closed <;> simp [h2]
    omega

theorem countP_close (l : List Module) (u : Nat) (m : Module) (hm : l.find? (·.uid == u) = some m)
    (hc : m.closed = false) :
    (l.map (closeFn u)).countP (fun m => !m.closed) + 1 ≤ l.countP (fun m => !m.closed) := by
  induction l with
  | nil => simp at hm
  | cons a l ih =>
    rw [List.find?_cons] at hm
    rw [List.map_cons, List.countP_cons, List.countP_cons]
    cases hau : (a.uid == u)
    · rw [hau] at hm
      have := ih hm
      have e : closeFn u a = a := by unfold closeFn; simp [hau]
      rw [e]; omega
    · rw [hau] at hm
      have ham : a = m := by simpa using hm
      have := countP_close_le l u
      have e1 : (!(closeFn u a).closed) = false := by unfold closeFn; simp [hau]
      have e2 : (!a.closed) = true := by rw [ham]; simp [hc]
      rw [e1, e2]; simp only [Bool.false_eq_true, if_false, if_true]; omega

theorem removePrep_good {cfg : Cfg} {s : State} (h : Good cfg s) (u : Nat) (m : Module) (hm : s.find u = some m)
    (hc : m.closed = false) :
    Good cfg (removePrep s u m) ∧ live (removePrep s u m) + 1 ≤ live s ∧ (∀ t, u ∉ idxGet (removePrep s u m).idx t) ∧
    (∀ t v, v ∈ idxGet (removePrep s u m).idx t → v ∈ idxGet s.idx t) ∧
    (∀ v m', (removePrep s u m).find v = some m' → m'.closed = true → v = u ∨ ∃ m0, s.find v = some m0 ∧ m0.closed = true) := by
  obtain ⟨hinv, hout⟩ := removePrep_inv h.inv u m hm
  have hfind := removePrep_find s u m
  have hidx := removePrep_idx s u m
  have hlog := removePrep_loggers s u m
  have hcr : (removePrep s u m).crashed = s.crashed := by unfold removePrep; dsimp only; split <;> rfl
  have hmods : (removePrep s u m).mods = s.mods.map (closeFn u) := by
    unfold removePrep closeFn; dsimp only; split <;> rfl
  have hclosed : ∀ v m', (removePrep s u m).find v = some m' → m'.closed = true →
      v = u ∨ ∃ m0, s.find v = some m0 ∧ m0.closed = true := by
    intro v m' hv c
    rw [hfind] at hv
    cases h0 : s.find v with
    | none => simp [h0] at hv
    | some m0 =>
      simp only [h0, Option.map_some, Option.some.injEq] at hv
      have hvu := find_uid h0
      by_cases hmu : m0.uid = u
      · left; rw [← hvu]; exact hmu
      · right; have : (m0.uid == u) = false := by simpa using hmu
        simp only [this, Bool.false_eq_true, if_false] at hv; subst hv; exact ⟨m0, rfl, c⟩
  refine ⟨⟨hinv, fun v m' hv c => ?_, hcr.trans h.ok⟩, ?_, hout,
    fun t v hv => by rw [hidx] at hv; exact idxGet_discards m.subs s.idx t u v hv, hclosed⟩
  · rcases hclosed v m' hv c with rfl | ⟨m0, hm0, c0⟩
    · exact ⟨hout, by rw [hlog]; simp⟩
    · have := h.cout v m0 hm0 c0
      refine ⟨fun t ht => this.1 t ?_, fun hl => this.2 ?_⟩
      · rw [hidx] at ht; exact idxGet_discards m.subs s.idx t u v ht
      · rw [hlog] at hl; exact (List.mem_filter.mp hl).1
  · unfold live; rw [hmods]; exact countP_close s.mods u m hm hc

theorem countP_filter_le (l : List Module) (p : Module → Bool) :
    (l.filter p).countP (fun m => !m.closed) ≤ l.countP (fun m => !m.closed) := by
  induction l with
  | nil => exact Nat.le_refl _
  | cons a l ih =>
    rw [List.filter_cons, List.countP_cons]
    cases p a
    · simp only [Bool.false_eq_true, if_false]; omega
    · simp only [if_true]; rw [List.countP_cons]; omega

theorem removeModule_safe {cfg : Cfg} (ok : CfgOK cfg) {fwd : Fwd} {n : Nat} (hs : Safe cfg fwd n) {s : State}
    (h : Good cfg s) (u : Nat) (m : Module) (hm : s.find u = some m) (hc : m.closed = false) (hb : 2 * live s ≤ n) :
    Good cfg (removeModule cfg fwd s u) ∧ Step s (removeModule cfg fwd s u) ∧
    live (removeModule cfg fwd s u) + 1 ≤ live s := by
  unfold removeModule
  simp only [hm]
  obtain ⟨h3, hl3, hout3, hsub3, hcl3⟩ := removePrep_good h u m hm hc
  obtain ⟨g3l, st3l⟩ := logAt_safe ok hs 10 h3 (by omega)
  have hl3l := st3l.live
  have h4 := hs (logAt cfg fwd 10 (removePrep s u m)) (closedFrame cfg { m with connected := false }) g3l
    (by rw [need_closed cfg ok]; omega)
  generalize fwd (logAt cfg fwd 10 (removePrep s u m)) (closedFrame cfg { m with connected := false }) = s4 at h4
  obtain ⟨g4, st4'⟩ := h4
  have st4 : Step (removePrep s u m) s4 := st3l.trans st4'
  have hfind5 : ∀ v, v ≠ u → ({ s4 with mods := s4.mods.filter (·.uid != u) } : State).find v = s4.find v :=
    fun v hv => find_filter_ne _ _ _ hv
  have hfindu : ({ s4 with mods := s4.mods.filter (·.uid != u) } : State).find u = none := find_filter_eq _ _
  have hl5 : live ({ s4 with mods := s4.mods.filter (·.uid != u) } : State) ≤ live s4 := countP_filter_le _ _
  have hlive4 := st4.live
  refine ⟨⟨?_, fun v m' hv c => ?_, g4.ok⟩, ⟨by omega, fun v m' hv c => ?_, fun t v hv => hsub3 t v (st4.idxsub t v hv)⟩, by omega⟩
  · refine ⟨fun t v hv => ?_, g4.inv.nodup, fun v m' hm' ha => ?_⟩
    · have hvu : v ≠ u := by intro e; subst e; exact hout3 t (st4.idxsub t v hv)
      obtain ⟨m0, hm0, ht⟩ := g4.inv.sub t v hv
      exact ⟨m0, by rw [hfind5 v hvu]; exact hm0, ht⟩
    · by_cases hvu : v = u
      · subst hvu; rw [hfindu] at hm'; cases hm'
      · rw [hfind5 v hvu] at hm'; exact g4.inv.excl v m' hm' ha
  · by_cases hvu : v = u
    · subst hvu; rw [hfindu] at hv; cases hv
    · rw [hfind5 v hvu] at hv; exact g4.cout v m' hv c
  · by_cases hvu : v = u
    · subst hvu; rw [hfindu] at hv; cases hv
    · rw [hfind5 v hvu] at hv
      obtain ⟨m3, hm3, c3⟩ := st4.nnc v m' hv c
      rcases hcl3 v m3 hm3 c3 with e | h0
      · exact absurd e hvu
      · exact h0

/-! ## the delivery loop -/

theorem trySend_safe {cfg : Cfg} (ok : CfgOK cfg) {fwd : Fwd} {n : Nat} (hs : Safe cfg fwd n) {s : State}
    (h : Good cfg s) (u : Nat) (f : Frame) (m : Module) (hm : s.find u = some m) (hc : m.closed = false)
    (hb : 2 * live s + gcost cfg f ≤ n) :
    Good cfg (trySend cfg fwd s u f) ∧ Step s (trySend cfg fwd s u f) := by
  unfold trySend
  dsimp only
  obtain ⟨g1, st1⟩ := sendRaw_good h u f m hm hc
  obtain ⟨m1, hm1, hc1, _⟩ := sendRaw_find (s := s) u f m hm hc
  generalize hsr : sendRaw s u f = r at g1 st1 hm1
  obtain ⟨s1, okb⟩ := r
  simp only at g1 st1 hm1 ⊢
  cases okb with
  | true =>
    simp only [if_true]
    have := good_upd g1 u (fun m => { m with drops := 0 }) (fun _ => rfl) (fun _ => rfl) (fun _ => rfl)
    exact ⟨this.1, st1.trans this.2⟩
  | false =>
    simp only [Bool.false_eq_true, if_false]
    have hcr : s1.crashed.isSome = false := by rw [g1.ok]; rfl
    simp only [hcr, Bool.false_eq_true, if_false]
    have hl1 := st1.live
    obtain ⟨g2, st2, hl2⟩ := removeModule_safe ok hs g1 u m1 hm1 hc1 (by omega)
    obtain ⟨g3, st3⟩ := logAt_safe ok hs 40 g2 (by omega)
    have hl3 := st3.live
    obtain ⟨g4, st4⟩ := failedMsg_safe ok hs g3 (match s.find u with | some m => m.modId | none => 0) f (by omega)
    exact ⟨g4, ((st1.trans st2).trans st3).trans st4⟩

theorem deliverOne_safe {cfg : Cfg} (ok : CfgOK cfg) {fwd : Fwd} {n : Nat} (hs : Safe cfg fwd n) {s : State}
    (h : Good cfg s) (f : Frame) (u : Nat) (hopen : ∀ m, s.find u = some m → m.closed = false)
    (hb : 2 * live s + gcost cfg f ≤ n) :
    Good cfg (deliverOne cfg fwd f s u) ∧ Step s (deliverOne cfg fwd f s u) := by
  unfold deliverOne
  cases hm : s.find u with
  | none => exact ⟨h, Step.refl s⟩
  | some m =>
    simp only
    have hc := hopen m hm
    split
    · split
      · exact trySend_safe ok hs h u f m hm hc hb
      · exact ⟨h, Step.refl s⟩
    · split
      · exact trySend_safe ok hs h u f m hm hc hb
      · have h1 := good_upd h u (fun m => { m with drops := m.drops + 1 }) (fun _ => rfl) (fun _ => rfl) (fun _ => rfl)
        have hl := h1.2.live
        have h2 := failedMsg_safe ok hs h1.1 m.modId f (by omega)
        exact ⟨h2.1, h1.2.trans h2.2⟩

theorem deliver_safe {cfg : Cfg} (ok : CfgOK cfg) {fwd : Fwd} {n : Nat} (hs : Safe cfg fwd n) (f : Frame) :
    ∀ (rs : List Nat) {s : State}, Good cfg s → (∀ u ∈ rs, ∀ m, s.find u = some m → m.closed = false) →
      2 * live s + gcost cfg f ≤ n → Good cfg (deliver cfg fwd f rs s) ∧ Step s (deliver cfg fwd f rs s)
  | [], s, h, _, _ => ⟨h, Step.refl s⟩
  | u :: rest, s, h, hopen, hb => by
    unfold deliver
    obtain ⟨g1, st1⟩ := deliverOne_safe ok hs h f u (hopen u (by simp)) hb
    have hl := st1.live
    have hopen' : ∀ v ∈ rest, ∀ m, (deliverOne cfg fwd f s u).find v = some m → m.closed = false := by
      intro v hv m' hm'
      cases hcl : m'.closed with
      | false => rfl
      | true =>
        obtain ⟨m0, hm0, c0⟩ := st1.nnc v m' hm' hcl
        have := hopen v (by simp [hv]) m0 hm0
        rw [this] at c0; cases c0
    obtain ⟨g2, st2⟩ := deliver_safe ok hs f rest g1 hopen' (by omega)
    exact ⟨g2, st1.trans st2⟩

theorem recipients_open {cfg : Cfg} (ok : CfgOK cfg) {s : State} (h : Good cfg s) (t : Int) :
    ∀ u ∈ recipients cfg s t, ∀ m, s.find u = some m → m.closed = false := by
  intro u hu m hm
  cases hcl : m.closed with
  | false => rfl
  | true =>
    have := h.cout u m hm hcl
    unfold recipients at hu
    rcases List.mem_append.mp hu with h1 | h1
    · exact absurd (ok.order _ _ h1) (this.1 t)
    · exact absurd (ok.order _ _ h1) (this.1 cfg.allTypes)

theorem need_count (cfg : Cfg) (s : State) (f : Frame) (t : Int) : need cfg (countMsg cfg s t) f = need cfg s f := by
  unfold need live countMsg; split <;> rfl

/-- **`forward_message` never crashes and never runs out of fuel**, provided it is given `need` units of it -/
theorem forward_safe {cfg : Cfg} (ok : CfgOK cfg) : ∀ n, Safe cfg (forward cfg n) n
  | 0 => fun s g _ hn => by unfold need at hn; omega
  | n + 1 => fun s g h hn => by
    have ih := forward_safe ok n
    unfold forward
    simp only [h.ok, Option.isSome_none, Bool.false_eq_true, if_false]
    obtain ⟨gc, stc⟩ := good_count h g.mtype
    have hlc : live (countMsg cfg s g.mtype) = live s := by unfold live countMsg; split <;> rfl
    have hoor : oor cfg g = ((g.dest < 0 || g.dest > cfg.maxModules) || (g.destHost < 0 || g.destHost > cfg.maxHosts)) := rfl
    unfold need at hn
    by_cases h1 : (g.dest < 0 || g.dest > cfg.maxModules) = true
    · simp only [h1, if_true]
      have : oor cfg g = true := by rw [hoor, h1]; rfl
      rw [this] at hn
      have := logAt_safe ok ih 40 gc (by rw [hlc]; simp at hn; omega)
      exact ⟨this.1, stc.trans this.2⟩
    · have h1' : (g.dest < 0 || g.dest > cfg.maxModules) = false := by simpa using h1
      simp only [h1', Bool.false_eq_true, if_false]
      by_cases h2 : (g.destHost < 0 || g.destHost > cfg.maxHosts) = true
      · simp only [h2, if_true]
        have : oor cfg g = true := by rw [hoor, h1', h2]; rfl
        rw [this] at hn
        have := logAt_safe ok ih 40 gc (by rw [hlc]; simp at hn; omega)
        exact ⟨this.1, stc.trans this.2⟩
      · have h2' : (g.destHost < 0 || g.destHost > cfg.maxHosts) = false := by simpa using h2
        simp only [h2', Bool.false_eq_true, if_false]
        have := deliver_safe ok ih g (recipients cfg (countMsg cfg s g.mtype) g.mtype) gc
          (recipients_open ok gc g.mtype) (by rw [hlc]; omega)
        exact ⟨this.1, stc.trans this.2⟩

theorem live_le_length (s : State) : live s ≤ s.mods.length := List.countP_le_length

/-- the top-level forward computes enough fuel by itself -/
theorem fwdTop_safe {cfg : Cfg} (ok : CfgOK cfg) (hfuel : cfg.fuel = 0) {s : State} (h : Good cfg s) (g : Frame) :
    Good cfg (fwdTop cfg s g) ∧ Step s (fwdTop cfg s g) := by
  unfold fwdTop fuelOf autoFuel
  simp only [hfuel, beq_self_eq_true, if_true]
  refine forward_safe ok _ s g h ?_
  unfold need gcost
  have := live_le_length s
  split <;> split <;> omega

/-! ## every top-level operation of `run()` is safe -/

/-- between two top-level operations no module is half-removed -/
def AllOpen (s : State) : Prop := ∀ u m, s.find u = some m → m.closed = false

structure Top (cfg : Cfg) (s : State) : Prop where
  good : Good cfg s
  aopen : AllOpen s

theorem allOpen_step {s s' : State} (h : AllOpen s) (st : Step s s') : AllOpen s' := by
  intro u m' hm'
  cases hcl : m'.closed with
  | false => rfl
  | true =>
    obtain ⟨m0, hm0, c0⟩ := st.nnc u m' hm' hcl
    rw [h u m0 hm0] at c0; cases c0

theorem top_of {cfg : Cfg} {s s' : State} (h : Top cfg s) (g : Good cfg s' ∧ Step s s') : Top cfg s' :=
  ⟨g.1, allOpen_step h.aopen g.2⟩

/-- `fwdTop` meets the nested contract for every budget -/
theorem fwdTop_Safe {cfg : Cfg} (ok : CfgOK cfg) (hfuel : cfg.fuel = 0) (n : Nat) : Safe cfg (fwdTop cfg) n :=
  fun _ g h _ => fwdTop_safe ok hfuel h g

variable {cfg : Cfg} (ok : CfgOK cfg) (hfuel : cfg.fuel = 0)
include ok hfuel

theorem top_fwd {s : State} (h : Top cfg s) (g : Frame) : Top cfg (fwdTop cfg s g) :=
  top_of h (fwdTop_safe ok hfuel h.good g)

theorem top_log {s : State} (h : Top cfg s) (lvl : Nat) : Top cfg (logAt cfg (fwdTop cfg) lvl s) := by
  unfold logAt; split
  · exact top_fwd ok hfuel h _
  · exact h

theorem top_remove {s : State} (h : Top cfg s) (u : Nat) : Top cfg (removeModule cfg (fwdTop cfg) s u) := by
  cases hm : s.find u with
  | none => unfold removeModule; simp only [hm]; exact h
  | some m =>
    obtain ⟨g, st, _⟩ := removeModule_safe ok (fwdTop_Safe ok hfuel (2 * live s)) h.good u m hm (h.aopen u m hm) (Nat.le_refl _)
    exact top_of h ⟨g, st⟩

theorem top_trySend {s : State} (h : Top cfg s) (u : Nat) (f : Frame) (m : Module) (hm : s.find u = some m) :
    Top cfg (trySend cfg (fwdTop cfg) s u f) :=
  top_of h (trySend_safe ok (fwdTop_Safe ok hfuel (2 * live s + gcost cfg f)) h.good u f m hm (h.aopen u m hm) (Nat.le_refl _))

theorem top_toLoggers (f : Frame) : ∀ (ls : List Nat) {s : State}, Top cfg s → Top cfg (toLoggers cfg f ls s)
  | [], _, h => h
  | u :: rest, s, h => by
    unfold toLoggers
    apply top_toLoggers f rest
    unfold loggerOne
    cases hm : s.find u with
    | none => exact h
    | some m => exact top_trySend ok hfuel h u f m hm

theorem top_sendAck {s : State} (h : Top cfg s) (u : Nat) : Top cfg (sendAck cfg s u) := by
  unfold sendAck
  cases hm : s.find u with
  | none => exact h
  | some m => exact top_toLoggers ok hfuel _ _ (top_trySend ok hfuel h u _ m hm)

theorem top_upd {s : State} (h : Top cfg s) (u : Nat) (f : Module → Module)
    (hu : ∀ m, (f m).uid = m.uid) (hs : ∀ m, (f m).subs = m.subs) (hc : ∀ m, (f m).closed = m.closed) :
    Top cfg (s.upd u f) := top_of h (good_upd h.good u f hu hs hc)

theorem top_same {s : State} (h : Top cfg s) (s' : State) (hm : s'.mods = s.mods) (hi : s'.idx = s.idx)
    (hc : s'.crashed = s.crashed) : Top cfg s' := by
  have hf : ∀ u, s'.find u = s.find u := fun u => by unfold State.find; rw [hm]
  refine ⟨⟨subInv_of_same h.good.inv hi (fun u => by rw [hf]), fun u m hu c => ?_, hc.trans h.good.ok⟩, fun u m hu => ?_⟩
  · rw [hf] at hu; rw [h.aopen u m hu] at c; cases c
  · rw [hf] at hu; exact h.aopen u m hu

theorem top_clashLoop (me : Module) : ∀ (os : List Module) {s : State}, Top cfg s → Top cfg (clashLoop cfg me os s).1
  | [], _, h => h
  | o :: rest, s, h => by
    unfold clashLoop
    split
    · exact h
    · apply top_clashLoop me rest
      split
      · exact h
      · exact top_log ok hfuel h 10

theorem top_connect {s : State} (h : Top cfg s) (u : Nat) (hd : Hdr) : Top cfg (connectModule cfg s u hd).1 := by
  unfold connectModule
  dsimp only
  split
  · exact h
  · split
    · exact top_remove ok hfuel (top_log ok hfuel (top_upd ok hfuel h u (setReq cfg s.buf hd)
        (fun m => (setReq_keeps cfg s.buf hd m).1) (fun m => (setReq_keeps cfg s.buf hd m).2)
        (fun m => by unfold setReq; split <;> rfl)) 40) u
    · rename_i nm _
      have h1 := top_upd ok hfuel h u (setAll cfg s.buf hd nm) (fun m => (setAll_keeps cfg s.buf hd nm m).1)
        (fun m => (setAll_keeps cfg s.buf hd nm m).2) (fun m => by unfold setAll setReq; split <;> rfl)
      split
      · split
        · exact top_remove ok hfuel (top_log ok hfuel h1 40) u
        · have hl := top_clashLoop ok hfuel (setAll cfg s.buf hd nm (lookupMod s u))
            ((s.upd u (setAll cfg s.buf hd nm)).mods.filter (·.uid != u)) h1
          generalize clashLoop cfg (setAll cfg s.buf hd nm (lookupMod s u))
            ((s.upd u (setAll cfg s.buf hd nm)).mods.filter (·.uid != u)) (s.upd u (setAll cfg s.buf hd nm)) = r at hl
          obtain ⟨s2, cl⟩ := r
          dsimp only at hl ⊢
          split
          · exact top_remove ok hfuel (top_log ok hfuel hl 40) u
          · exact top_same ok hfuel (top_upd ok hfuel hl u (fun m => { m with connected := true })
              (fun _ => rfl) (fun _ => rfl) (fun _ => rfl)) _ rfl rfl rfl
      · split
        · exact top_remove ok hfuel (top_log ok hfuel h1 40) u
        · rename_i id off _
          have h2 : Top cfg ({ (s.upd u (setAll cfg s.buf hd nm)) with nextDyn := off } : State) :=
            top_same ok hfuel h1 _ rfl rfl rfl
          exact top_same ok hfuel (top_upd ok hfuel h2 u (fun m => { m with modId := id, connected := true })
            (fun _ => rfl) (fun _ => rfl) (fun _ => rfl)) _ rfl rfl rfl

theorem top_infoOf {s : State} (h : Top cfg s) (m : Module) : Top cfg (infoOf cfg s m) := by
  unfold infoOf; exact top_fwd ok hfuel (top_log ok hfuel h 10) _

theorem top_sendInfo {s : State} (h : Top cfg s) (u : Nat) : Top cfg (sendInfo cfg s u) := by
  unfold sendInfo; split
  · exact h
  · exact top_infoOf ok hfuel h _

omit ok hfuel in
theorem closedmap_setSubs (s : State) (i : List (Int × List Nat)) (u v : Nat) (l : List Int) :
    ((({ s with idx := i } : State).setSubs u l).find v).map (·.closed) = (s.find v).map (·.closed) := by
  rw [find_setSubs]
  show Option.map _ (Option.map _ (s.find v)) = _
  cases s.find v with
  | none => rfl
  | some m0 => simp only [Option.map_some]; split <;> rfl

omit ok hfuel in
theorem allOpen_of_closedmap {s s' : State} (h : AllOpen s)
    (hc : ∀ v, (s'.find v).map (·.closed) = (s.find v).map (·.closed)) : AllOpen s' := by
  intro v m' hv
  have := hc v; rw [hv] at this
  cases h0 : s.find v with
  | none => simp [h0] at this
  | some m0 => simp [h0] at this; rw [this]; exact h v m0 h0

theorem top_addSubCore {s : State} (h : Top cfg s) (u : Nat) (t : Int) (m : Module) (hm : s.find u = some m) :
    Top cfg (addSubCore cfg s u t) := by
  have hinv := addSubCore_inv h.good.inv u t m hm
  have hcm : ∀ v, ((addSubCore cfg s u t).find v).map (·.closed) = (s.find v).map (·.closed) := by
    intro v; unfold addSubCore; dsimp only
    split
    · exact closedmap_setSubs s _ u v _
    · split
      · rfl
      · exact closedmap_setSubs s _ u v _
  have hcr : (addSubCore cfg s u t).crashed = s.crashed := by
    unfold addSubCore; dsimp only; split; rfl; split <;> rfl
  have ho := allOpen_of_closedmap h.aopen hcm
  exact ⟨⟨hinv, fun v m' hv c => (by rw [ho v m' hv] at c; cases c), hcr.trans h.good.ok⟩, ho⟩

theorem top_addSub {s : State} (h : Top cfg s) (u : Nat) (t : Int) (m : Module) (hm : s.find u = some m) :
    Top cfg (addSub cfg s u t) := by
  unfold addSub; split
  · exact top_log ok hfuel (top_addSubCore ok hfuel h u t m hm) 10
  · exact top_addSubCore ok hfuel h u t m hm

theorem top_removeSubCore {s : State} (h : Top cfg s) (u : Nat) (t : Int) (m : Module) (hm : s.find u = some m) :
    Top cfg (removeSubCore cfg s u t) := by
  have hinv := removeSubCore_inv h.good.inv u t m hm
  have hcm : ∀ v, ((removeSubCore cfg s u t).find v).map (·.closed) = (s.find v).map (·.closed) := by
    intro v; unfold removeSubCore; dsimp only
    split
    · exact closedmap_setSubs s _ u v _
    · split
      · rfl
      · exact closedmap_setSubs s _ u v _
  have hcr : (removeSubCore cfg s u t).crashed = s.crashed := by
    unfold removeSubCore; dsimp only; split; rfl; split <;> rfl
  have ho := allOpen_of_closedmap h.aopen hcm
  exact ⟨⟨hinv, fun v m' hv c => (by rw [ho v m' hv] at c; cases c), hcr.trans h.good.ok⟩, ho⟩

theorem top_removeSub {s : State} (h : Top cfg s) (u : Nat) (t : Int) (m : Module) (hm : s.find u = some m) :
    Top cfg (removeSub cfg s u t) := by
  unfold removeSub; split
  · exact top_log ok hfuel (top_removeSubCore ok hfuel h u t m hm) 10
  · exact top_removeSubCore ok hfuel h u t m hm

theorem top_process {s : State} (h : Top cfg s) (u : Nat) (m : Module) (hm : s.find u = some m) (hd : Hdr) :
    Top cfg (processMessage cfg s u hd) := by
  unfold processMessage
  dsimp only
  split
  · have hc := top_connect ok hfuel h u hd
    generalize connectModule cfg s u hd = r at hc
    obtain ⟨s1, okb⟩ := r
    simp only at hc ⊢
    split
    · exact top_log ok hfuel (top_infoOf ok hfuel (top_sendAck ok hfuel hc u) _) 20
    · exact hc
  · split
    · exact top_log ok hfuel (top_remove ok hfuel h u) 20
    · split
      · have h1 := top_addSub ok hfuel h u (bufI32 s.buf 0) m hm
        exact top_sendAck ok hfuel h1 u
      · split
        · have h1 := top_removeSub ok hfuel h u (bufI32 s.buf 0) m hm
          exact top_sendAck ok hfuel h1 u
        · split
          · split
            · exact top_remove ok hfuel (top_log ok hfuel h 40) u
            · rename_i nm _
              exact top_infoOf ok hfuel (top_log ok hfuel
                (top_upd ok hfuel h u (fun m => { m with name := nm }) (fun _ => rfl) (fun _ => rfl) (fun _ => rfl)) 20) _
          · split
            · exact top_sendInfo ok hfuel (top_upd ok hfuel h u (fun m => { m with pid := bufI32 s.buf 0 })
                (fun _ => rfl) (fun _ => rfl) (fun _ => rfl)) u
            · exact top_fwd ok hfuel (top_log ok hfuel h 10) _

theorem top_readOne {s : State} (h : Top cfg s) (r : Read) : Top cfg (readOne cfg s r) := by
  unfold readOne
  split
  · exact h
  · split
    · exact h
    · rename_i m hm
      have he : Top cfg (s.emit (.rd r.uid)) := top_of h (good_emit h.good _)
      dsimp only
      split
      · exact top_log ok hfuel (top_remove ok hfuel he _) 40
      · split
        · exact top_log ok hfuel (top_remove ok hfuel he _) 30
        · split
          · exact top_log ok hfuel (top_remove ok hfuel he _) 30
          · split
            · split
              · exact top_log ok hfuel (top_remove ok hfuel he _) 40
              · split
                · exact top_log ok hfuel (top_remove ok hfuel
                    (top_same ok hfuel he { (s.emit (.rd r.uid)) with buf := bufWrite (s.emit (.rd r.uid)).buf r.pay r.avail } rfl rfl rfl) _) 30
                · exact top_process ok hfuel
                    (top_same ok hfuel he { (s.emit (.rd r.uid)) with buf := bufWrite (s.emit (.rd r.uid)).buf r.pay r.h.nbytes.toNat } rfl rfl rfl)
                    _ m hm _
            · exact top_process ok hfuel he _ m hm _

theorem top_readAll : ∀ (rs : List Read) {s : State}, Top cfg s → Top cfg (readAll cfg rs s)
  | [], _, h => h
  | r :: rest, _, h => by unfold readAll; exact top_readAll rest (top_readOne ok hfuel h r)

theorem top_foldl_fwd : ∀ (fs : List Frame) {s : State}, Top cfg s → Top cfg (fs.foldl (fwdTop cfg) s)
  | [], _, h => h
  | f :: rest, _, h => by simp only [List.foldl_cons]; exact top_foldl_fwd rest (top_fwd ok hfuel h f)

theorem top_infoAll : ∀ (ms : List Module) {s : State}, Top cfg s → Top cfg (infoAll cfg ms s)
  | [], _, h => h
  | m :: rest, _, h => by unfold infoAll; exact top_infoAll rest (top_infoOf ok hfuel h _)

theorem top_accept {s : State} (h : Top cfg s) : Top cfg (acceptStep cfg s) := by
  unfold acceptStep
  dsimp only
  have hl := top_log ok hfuel h 20
  generalize logAt cfg (fwdTop cfg) 20 s = s1 at hl
  have hinv := acceptStep_inv (cfg := cfg) (s := s) h.good.inv
  have hfind : ∀ v m', ({ s1 with nextUid := s1.nextUid + 1, mods := s1.mods ++ [({ uid := s1.nextUid + 1 } : Module)] } : State).find v = some m' →
      m'.closed = false := by
    intro v m' hv
    have hv' : (s1.mods ++ [({ uid := s1.nextUid + 1 } : Module)]).find? (·.uid == v) = some m' := hv
    rw [List.find?_append] at hv'
    cases h0 : s1.mods.find? (·.uid == v) with
    | some m0 => rw [h0] at hv'; simp at hv'; subst hv'; exact hl.aopen v m0 h0
    | none => rw [h0] at hv'; simp at hv'; obtain ⟨_, rfl⟩ := hv'; rfl
  refine ⟨⟨?_, fun v m' hv c => (by rw [hfind v m' hv] at c; cases c), hl.good.ok⟩, hfind⟩
  -- SubInv: as in acceptStep_inv, for the already generalised state
  refine ⟨fun t v hv => ?_, hl.good.inv.nodup, fun v m' hm' ha => ?_⟩
  · obtain ⟨m0, hm0, ht⟩ := hl.good.inv.sub t v hv
    refine ⟨m0, ?_, ht⟩
    show (s1.mods ++ _).find? _ = some m0
    rw [List.find?_append]; unfold State.find at hm0; rw [hm0]; rfl
  · have hm'' : (s1.mods ++ [({ uid := s1.nextUid + 1 } : Module)]).find? (·.uid == v) = some m' := hm'
    rw [List.find?_append] at hm''
    cases h0' : s1.mods.find? (·.uid == v) with
    | some m0 => rw [h0'] at hm''; simp at hm''; subst hm''; exact hl.good.inv.excl v m0 h0' ha
    | none =>
      rw [h0'] at hm''; simp at hm''
      obtain ⟨_, rfl⟩ := hm''; simp at ha

theorem top_io {s : State} (h : Top cfg s) (a : Bool) (w : List Nat) (rs : List Read) : Top cfg (ioStep cfg s a w rs) := by
  unfold ioStep
  split
  · dsimp only
    apply top_readAll ok hfuel
    split
    · exact top_same ok hfuel (top_accept ok hfuel h) _ rfl rfl rfl
    · exact top_same ok hfuel h _ rfl rfl rfl
  · exact h

theorem top_ticks {s : State} (h : Top cfg s) : Top cfg (ticks cfg s) := by
  unfold ticks
  dsimp only
  have h1 : Top cfg (if (cfg.timing && decide (s.now - s.tTiming > cfg.pTiming)) = true then
      { sendTiming cfg s with tTiming := s.now } else s) := by
    split
    · unfold sendTiming; dsimp only
      have a1 : Top cfg ({ s with counts := [], inTraffic := true } : State) := top_same ok hfuel h _ rfl rfl rfl
      have a2 := top_fwd ok hfuel a1 (mgrFrame cfg.mtTiming 0 cfg.szTiming (Body.timing (timingEntries cfg s.counts) (pidEntries s.mods)))
      exact top_same ok hfuel (top_same ok hfuel a2 _ rfl rfl rfl) _ rfl rfl rfl
    · exact h
  generalize (if (cfg.timing && decide (s.now - s.tTiming > cfg.pTiming)) = true then
      { sendTiming cfg s with tTiming := s.now } else s) = s1 at h1 ⊢
  have h2 : Top cfg (if s1.now - s1.tTraffic > cfg.pTraffic then sendTraffic cfg s1 else s1) := by
    split
    · unfold sendTraffic; dsimp only
      have a1 : Top cfg ({ s1 with inTraffic := true } : State) := top_same ok hfuel h1 _ rfl rfl rfl
      have a1' := top_log ok hfuel a1 10
      generalize logAt cfg (fwdTop cfg) 10 ({ s1 with inTraffic := true } : State) = s1' at a1'
      have a2 := top_foldl_fwd ok hfuel (trafficFrames cfg s1'.trafficSeq s1'.traffic) a1'
      exact top_same ok hfuel a2 _ rfl rfl rfl
    · exact h1
  generalize (if s1.now - s1.tTraffic > cfg.pTraffic then sendTraffic cfg s1 else s1) = s2 at h2 ⊢
  split
  · unfold sendActive; dsimp only
    have a0 := top_log ok hfuel h2 10
    generalize logAt cfg (fwdTop cfg) 10 s2 = s3 at a0
    have a1 := top_infoAll ok hfuel s3.mods a0
    have a2 := top_fwd ok hfuel a1 (mgrFrame cfg.mtActive 0 cfg.szActive
      (Body.active (((infoAll cfg s3.mods s3).mods.length : Int) - 1) (trimZeros ((s3.mods.take cfg.maxActive).map (·.modId)))
        (trimZeros ((s3.mods.take cfg.maxActive).map (·.pid)))))
    exact top_same ok hfuel a2 _ rfl rfl rfl
  · exact h2

theorem top_step {s : State} (h : Top cfg s) (r : Round) : Top cfg (step cfg s r) := by
  unfold step
  split
  · exact h
  · dsimp only
    have h0 : Top cfg (envStep s r) := by unfold envStep; exact top_same ok hfuel h _ rfl rfl rfl
    exact top_ticks ok hfuel (top_io ok hfuel h0 _ _ _)

theorem top_init : Top cfg (init cfg) := by
  unfold init
  apply top_log ok hfuel
  refine ⟨⟨?_, fun u m hm c => ?_, rfl⟩, fun u m hm => ?_⟩
  · refine ⟨fun t u hu => by simp [idxGet] at hu, fun t => by simp [idxGet], fun u m hm ha => ?_⟩
    simp only [State.find, List.find?_cons, List.find?_nil] at hm
    split at hm
    · cases hm; simp at ha
    · cases hm
  · simp only [State.find, List.find?_cons, List.find?_nil] at hm
    split at hm
    · cases hm; simp at c
    · cases hm
  · simp only [State.find, List.find?_cons, List.find?_nil] at hm
    split at hm
    · cases hm; rfl
    · cases hm

/-- **The manager model never crashes.**  After any sequence of rounds — any accepts, any frames with any header
values and payload bytes, truncated or reset at any point, any writable sets, any sockets failing at any time, any clock —
`crashed` is `none`: no write ever goes to a socket the manager has closed, nothing is removed twice, and the recursion
`forward → remove → CLIENT_CLOSED forward → …` always has enough fuel.  (With it: every intermediate state satisfies the
subscription-index invariant and no module is ever left half-removed.) -/
theorem never_crashes (rs : List Round) : (run cfg rs).crashed = none ∧ Top cfg (run cfg rs) := by
  have : ∀ (rs : List Round) (s : State), Top cfg s → Top cfg (rs.foldl (step cfg) s) := by
    intro rs; induction rs with
    | nil => intro s h; exact h
    | cons r rs ih => intro s h; exact ih _ (top_step ok hfuel h r)
  have h := this rs _ (top_init ok hfuel)
  exact ⟨h.good.ok, h⟩

end Pyrtma.Mgr
