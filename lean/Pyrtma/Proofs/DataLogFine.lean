import Pyrtma.Spec.DataLogFine
import Pyrtma.Proofs.DataLog
/-!
# Invariant of the fine-granularity model (M10f)

Ownership invariant over the product of the two program counters, now with one program counter per access
to a shared object.  The program counters are grouped into *classes* (`rcls`, `wcls`): the protocol part of
the invariant (`compat`: how the two events relate to the classes; `mustBeEmpty`: whose turn it is to own a
`wbuf`) only looks at the classes, so a step inside a class preserves it for free; what remains per step is
the bookkeeping of references loaded into locals (`WLoc`, `RLoc`), of the file objects (`FileInv`) and the
data equation (`dataEq`).
-/
set_option linter.unusedSimpArgs false
set_option linter.unusedVariables false

namespace Pyrtma.DataLog.Fine

/-! ### data-set level facts -/

@[simp] theorem upd_same {α} (f : Nat → α) (i : Nat) (x : α) : upd f i x i = x := by simp [upd]
theorem upd_other {α} (f : Nat → α) {i j : Nat} (x : α) (h : j ≠ i) : upd f i x j = f j := by simp [upd, h]
@[simp] theorem setDs_same (f : Nat → Ds) (i : Nat) (d : Ds) : setDs f i d i = d := by simp [setDs]
theorem setDs_other (f : Nat → Ds) {i j : Nat} (d : Ds) (h : j ≠ i) : setDs f i d j = f j := by simp [setDs, h]

@[simp] theorem setFile_lists (d : Ds) (k : Nat) (f : FileObj) : (d.setFile k f).lists = d.lists := rfl
@[simp] theorem setFile_rb (d : Ds) (k : Nat) (f : FileObj) : (d.setFile k f).rb = d.rb := rfl
@[simp] theorem setFile_wb (d : Ds) (k : Nat) (f : FileObj) : (d.setFile k f).wb = d.wb := rfl
@[simp] theorem setFile_fd (d : Ds) (k : Nat) (f : FileObj) : (d.setFile k f).fd = d.fd := rfl
@[simp] theorem setFile_fmt (d : Ds) (k : Nat) (f : FileObj) : (d.setFile k f).fmt = d.fmt := rfl
@[simp] theorem setFile_sub (d : Ds) (k : Nat) (f : FileObj) : (d.setFile k f).sub = d.sub := rfl
@[simp] theorem setFile_files_same (d : Ds) (k : Nat) (f : FileObj) : (d.setFile k f).files k = f := by
  simp [Ds.setFile]
theorem setFile_files_other (d : Ds) {k j : Nat} (f : FileObj) (h : j ≠ k) : (d.setFile k f).files j = d.files j := by
  simp [Ds.setFile, upd, h]

/-- what a running formatter method has still to write in its first pass -/
def callPend (c : Call) (L : List Msg) : List Msg :=
  match c.pc with
  | .next0 => L.drop c.idx
  | .emit0 m => m :: L.drop c.idx
  | _ => []

/-- the indices into the scripts of file-system operations are in range -/
def callOk (k : Kind) (c : Call) : Bool :=
  match c.pc with
  | .ioA j => decide (j < (ioA k c.ck).length)
  | .ioB j => decide (j < (ioB k c.ck).length)
  | _ => true

/-- `tclose` only occurs as the last operation of a script, `close` never -/
def CallRes.ds? : CallRes → Option Ds
  | .cont d _ => some d
  | .ret d => some d
  | .exc => none

def CallRes.pendAfter (L : List Msg) : CallRes → List Msg
  | .cont _ c => callPend c L
  | _ => []

def emitted (c : Call) : List Msg :=
  match c.pc with
  | .emit0 m => [m]
  | _ => []


/-- frame and effect of one step of a formatter method that did not raise -/
structure CallFrame (k : Kind) (d : Ds) (c : Call) (d' : Ds) : Prop where
  lists : d'.lists = d.lists
  rb : d'.rb = d.rb
  wb : d'.wb = d.wb
  fd : d'.fd = d.fd
  fmt : d'.fmt = d.fmt
  sub : d'.sub = d.sub
  subFlag : d'.subFlag = d.subFlag
  nextSub : d'.nextSub = d.nextSub
  stopped : d'.stopped = d.stopped
  other : ∀ j, j ≠ c.f → d'.files j = d.files j
  log0 : (d'.files c.f).log0 = (d.files c.f).log0 ++ emitted c
  closed : (d'.files c.f).closed = (d.files c.f).closed

theorem setFile_frame (k : Kind) (d : Ds) (c : Call) (fo : FileObj)
    (h0 : fo.log0 = (d.files c.f).log0 ++ emitted c) (hc : fo.closed = (d.files c.f).closed) :
    CallFrame k d c (d.setFile c.f fo) := by
  refine ⟨rfl, rfl, rfl, rfl, rfl, rfl, rfl, rfl, rfl, ?_, ?_, ?_⟩
  · intro j hj; exact setFile_files_other d fo hj
  · simpa using h0
  · simpa using hc

theorem frame_refl (k : Kind) (d : Ds) (c : Call) (h : emitted c = []) : CallFrame k d c d :=
  ⟨rfl, rfl, rfl, rfl, rfl, rfl, rfl, rfl, rfl, fun _ _ => rfl, by simp [h], rfl⟩

theorem ioEffect_closed (fo : FileObj) (op : IoOp) (h : op ≠ .close) : (ioEffect fo op).closed = fo.closed := by
  cases op <;> simp_all [ioEffect]
theorem ioEffect_log0 (fo : FileObj) (op : IoOp) : (ioEffect fo op).log0 = fo.log0 := by
  cases op <;> simp [ioEffect]
theorem ioEffect_tclosed (fo : FileObj) (op : IoOp) (h : op ≠ .tclose) : (ioEffect fo op).tclosed = fo.tclosed := by
  cases op <;> simp_all [ioEffect]

theorem ioA_no_close (k : Kind) (ck : CallKind) (op : IoOp) (h : op ∈ ioA k ck) : op ≠ .close ∧ op ≠ .tclose := by
  cases k <;> cases ck <;> simp_all [ioA] <;> rcases h with h | h | h | h <;> simp_all
theorem ioB_no_close (k : Kind) (ck : CallKind) (op : IoOp) (h : op ∈ ioB k ck) : op ≠ .close := by
  cases k <;> cases ck <;> simp_all [ioB] <;> rcases h with h | h | h | h <;> simp_all


/-- the file-system operation a formatter method is about to perform -/
def Call.op (k : Kind) (c : Call) : Option IoOp :=
  match c.pc with
  | .next0 | .next1 => none
  | .emit0 _ => some .write
  | .emit1 _ => some (emit1Op c.ck)
  | .ioA j => (ioA k c.ck)[j]?
  | .ioB j => (ioB k c.ck)[j]?

/-- what one step of a formatter method does -/
def CallSpec (k : Kind) (fail : Bool) (d : Ds) (c : Call) : CallRes → Prop
  | .cont d' c' => CallFrame k d c d' ∧ c'.f = c.f ∧ c'.l = c.l ∧ c'.ck = c.ck ∧ callOk k c' = true ∧
      emitted c ++ callPend c' (d.lists c.l) = callPend c (d.lists c.l) ∧
      (d'.files c.f).tclosed = (d.files c.f).tclosed
  | .ret d' => CallFrame k d c d' ∧ emitted c = callPend c (d.lists c.l) ∧
      (c.ck = .write → (d'.files c.f).tclosed = (d.files c.f).tclosed)
  | .exc => fail = true ∨ ∃ op, c.op k = some op ∧ ioOk (d.files c.f) op = false

theorem afterB_spec (k : Kind) (fail : Bool) (d0 d : Ds) (c0 c : Call) (hf : c.f = c0.f)
    (hfr : CallFrame k d0 c0 d) (hp : emitted c0 = callPend c0 (d0.lists c0.l))
    (ht : c0.ck = .write → (d.files c0.f).tclosed = (d0.files c0.f).tclosed) :
    CallSpec k fail d0 c0 (afterB k d c) := by
  unfold afterB
  refine ⟨?_, hp, ?_⟩
  case refine_2 => intro hw; rw [hf]; simpa using ht hw
  obtain ⟨h1, h2, h3, h4, h5, h6, h7, h8, h9, h10, h11, h12⟩ := hfr
  refine ⟨h1, h2, h3, h4, h5, h6, h7, h8, h9, ?_, ?_, ?_⟩
  · intro j hj; rw [hf, setFile_files_other _ _ hj]; exact h10 j hj
  · rw [hf]; simpa using h11
  · rw [hf]; simpa using h12


theorem frame_setFile (k : Kind) (d0 d : Ds) (c0 : Call) (fo : FileObj) (hfr : CallFrame k d0 c0 d)
    (h0 : fo.log0 = (d.files c0.f).log0) (hc : fo.closed = (d.files c0.f).closed) :
    CallFrame k d0 c0 (d.setFile c0.f fo) := by
  obtain ⟨h1, h2, h3, h4, h5, h6, h7, h8, h9, h10, h11, h12⟩ := hfr
  refine ⟨h1, h2, h3, h4, h5, h6, h7, h8, h9, ?_, ?_, ?_⟩
  · intro j hj; rw [setFile_files_other _ _ hj]; exact h10 j hj
  · simp [h0, h11]
  · simp [hc, h12]

theorem afterPass1_spec (k : Kind) (fail : Bool) (d0 d : Ds) (c0 c : Call)
    (hc : c.f = c0.f ∧ c.l = c0.l ∧ c.ck = c0.ck)
    (hfr : CallFrame k d0 c0 d) (hp : emitted c0 = callPend c0 (d0.lists c0.l))
    (ht : (d.files c0.f).tclosed = (d0.files c0.f).tclosed) :
    CallSpec k fail d0 c0 (afterPass1 k d c) := by
  unfold afterPass1
  simp only
  have hfr' : CallFrame k d0 c0 (if k = .ql ∧ c.ck ≠ .finDirect then
      d.setFile c.f { d.files c.f with nWrites := (d.files c.f).nWrites + 1 } else d) := by
    split
    · rw [hc.1]; exact frame_setFile k d0 d c0 _ hfr rfl rfl
    · exact hfr
  have ht' : ((if k = .ql ∧ c.ck ≠ .finDirect then
      d.setFile c.f { d.files c.f with nWrites := (d.files c.f).nWrites + 1 } else d).files c0.f).tclosed
      = (d0.files c0.f).tclosed := by
    split
    · rw [hc.1]; simpa using ht
    · exact ht
  split
  · exact afterB_spec k fail d0 _ c0 c hc.1 hfr' hp (fun _ => ht')
  · rename_i hne
    refine ⟨hfr', hc.1, hc.2.1, hc.2.2, ?_, ?_, ht'⟩
    · simp only [callOk, hc.2.2]
      have : (ioB k c0.ck) ≠ [] := by rw [← hc.2.2]; simpa using hne
      simpa [List.length_pos_iff] using this
    · simpa [callPend] using hp

theorem afterA_spec (k : Kind) (fail : Bool) (d0 d : Ds) (c0 c : Call)
    (hc : c.f = c0.f ∧ c.l = c0.l ∧ c.ck = c0.ck)
    (hfr : CallFrame k d0 c0 d) (hp : emitted c0 = callPend c0 (d0.lists c0.l))
    (ht : (d.files c0.f).tclosed = (d0.files c0.f).tclosed) :
    CallSpec k fail d0 c0 (afterA k d c) := by
  unfold afterA
  split
  · exact ⟨hfr, hc.1, hc.2.1, hc.2.2, rfl, by simpa [callPend] using hp, ht⟩
  · exact afterPass1_spec k fail d0 d c0 c hc hfr hp ht

theorem afterPass0_spec (k : Kind) (fail : Bool) (d0 d : Ds) (c0 c : Call)
    (hc : c.f = c0.f ∧ c.l = c0.l ∧ c.ck = c0.ck)
    (hfr : CallFrame k d0 c0 d) (hp : emitted c0 = callPend c0 (d0.lists c0.l))
    (ht : (d.files c0.f).tclosed = (d0.files c0.f).tclosed) :
    CallSpec k fail d0 c0 (afterPass0 k d c) := by
  unfold afterPass0
  split
  · exact afterA_spec k fail d0 d c0 c hc hfr hp ht
  · rename_i hne
    refine ⟨hfr, hc.1, hc.2.1, hc.2.2, ?_, by simpa [callPend] using hp, ht⟩
    simp only [callOk, hc.2.2]
    have : (ioA k c0.ck) ≠ [] := by rw [← hc.2.2]; simpa using hne
    simpa [List.length_pos_iff] using this


theorem drop_of_getElem? {α} (L : List α) (i : Nat) (m : α) (h : L[i]? = some m) : L.drop i = m :: L.drop (i + 1) := by
  obtain ⟨hi, rfl⟩ := List.getElem?_eq_some_iff.1 h
  exact List.drop_eq_getElem_cons hi

theorem drop_of_getElem?_none {α} (L : List α) (i : Nat) (h : L[i]? = none) : L.drop i = [] := by
  have := List.getElem?_eq_none_iff.1 h
  exact List.drop_eq_nil_of_le this

theorem ioB_tclose_last (k : Kind) (ck : CallKind) (j : Nat) (h : j + 1 < (ioB k ck).length) :
    (ioB k ck)[j]? ≠ some .tclose := by
  cases k <;> cases ck <;> simp_all [ioB] <;> (rcases j with _ | _ | _ | j <;> simp_all) <;> omega

theorem callStep_spec (k : Kind) (fail : Bool) (d : Ds) (c : Call) (hok : callOk k c = true) :
    CallSpec k fail d c (callStep k fail d c) := by
  unfold callStep
  simp only
  cases hpc : c.pc with
  | next0 =>
    simp only
    split
    · rename_i m hm
      refine ⟨frame_refl k d c (by simp [emitted, hpc]), rfl, rfl, rfl, rfl, ?_, rfl⟩
      simp [emitted, callPend, hpc, drop_of_getElem? _ _ _ hm]
    · rename_i hm
      exact afterPass0_spec k fail d d c c ⟨rfl, rfl, rfl⟩ (frame_refl k d c (by simp [emitted, hpc]))
        (by simp [emitted, callPend, hpc, drop_of_getElem?_none _ _ hm]) rfl
  | emit0 m =>
    simp only
    split
    · rename_i h
      simp only [Bool.or_eq_true, Bool.not_eq_true'] at h
      rcases h with h | h
      · exact Or.inr ⟨.write, by simp [Call.op, hpc], h⟩
      · exact Or.inl h
    · refine ⟨setFile_frame k d c _ (by simp [emitted, hpc]) rfl, rfl, rfl, rfl, rfl, ?_, by simp⟩
      simp [emitted, callPend, hpc]
  | ioA j =>
    simp only
    have hj : j < (ioA k c.ck).length := by simpa [callOk, hpc] using hok
    rw [List.getElem?_eq_getElem hj]
    simp only
    have hmem : (ioA k c.ck)[j] ∈ ioA k c.ck := List.getElem_mem hj
    have hnc := ioA_no_close k c.ck _ hmem
    split
    · rename_i h
      simp only [Bool.or_eq_true, Bool.not_eq_true'] at h
      rcases h with h | h
      · exact Or.inr ⟨_, by simp [Call.op, hpc, List.getElem?_eq_getElem hj], h⟩
      · exact Or.inl h
    · have hfr : CallFrame k d c (d.setFile c.f (ioEffect (d.files c.f) (ioA k c.ck)[j])) :=
        setFile_frame k d c _ (by simp [emitted, hpc, ioEffect_log0]) (ioEffect_closed _ _ hnc.1)
      have ht : ((d.setFile c.f (ioEffect (d.files c.f) (ioA k c.ck)[j])).files c.f).tclosed = (d.files c.f).tclosed := by
        simp [ioEffect_tclosed _ _ hnc.2]
      split
      · rename_i hlt
        exact ⟨hfr, rfl, rfl, rfl, by simp [callOk, hlt], by simp [emitted, callPend, hpc], ht⟩
      · exact afterA_spec k fail d _ c c ⟨rfl, rfl, rfl⟩ hfr (by simp [emitted, callPend, hpc]) ht
  | next1 =>
    simp only
    split
    · exact ⟨frame_refl k d c (by simp [emitted, hpc]), rfl, rfl, rfl, rfl, by simp [emitted, callPend, hpc], rfl⟩
    · exact afterPass1_spec k fail d d c c ⟨rfl, rfl, rfl⟩ (frame_refl k d c (by simp [emitted, hpc]))
        (by simp [emitted, callPend, hpc]) rfl
  | emit1 m =>
    simp only
    split
    · rename_i h
      simp only [Bool.or_eq_true, Bool.not_eq_true'] at h
      rcases h with h | h
      · exact Or.inr ⟨_, by simp [Call.op, hpc], h⟩
      · exact Or.inl h
    · exact ⟨setFile_frame k d c _ (by simp [emitted, hpc]) rfl, rfl, rfl, rfl, rfl, by simp [emitted, callPend, hpc],
        by simp⟩
  | ioB j =>
    simp only
    have hj : j < (ioB k c.ck).length := by simpa [callOk, hpc] using hok
    rw [List.getElem?_eq_getElem hj]
    simp only
    have hmem : (ioB k c.ck)[j] ∈ ioB k c.ck := List.getElem_mem hj
    have hnc := ioB_no_close k c.ck _ hmem
    split
    · rename_i h
      simp only [Bool.or_eq_true, Bool.not_eq_true'] at h
      rcases h with h | h
      · exact Or.inr ⟨_, by simp [Call.op, hpc, List.getElem?_eq_getElem hj], h⟩
      · exact Or.inl h
    · have hfr : CallFrame k d c (d.setFile c.f (ioEffect (d.files c.f) (ioB k c.ck)[j])) :=
        setFile_frame k d c _ (by simp [emitted, hpc, ioEffect_log0]) (ioEffect_closed _ _ hnc)
      split
      · rename_i hlt
        refine ⟨hfr, rfl, rfl, rfl, by simp [callOk, hlt], by simp [emitted, callPend, hpc], ?_⟩
        -- `tclose` is the last operation of every script
        have : (ioB k c.ck)[j] ≠ .tclose := by
          have h1 := ioB_tclose_last k c.ck j hlt
          rw [List.getElem?_eq_getElem hj] at h1
          simpa using h1
        simp [ioEffect_tclosed _ _ this]
      · refine afterB_spec k fail d _ c c rfl hfr (by simp [emitted, callPend, hpc]) ?_
        intro hw; rw [hw] at hj; cases k <;> simp [ioB] at hj


/-! ### classes of program counters -/

inductive RC where
  | safe                          -- the writer may own the write buffers
  | uStage (j : Nat)
  | uClrFin
  | uSetTD
  | sClrTD
  | sClrFin
  | sFin (j : Nat) (staged : Bool)  -- `stop()` is finishing data set `j`
  | done
  | raised
deriving Repr, DecidableEq, Inhabited

def rcls : RPc → RC
  | .idle | .uAlive | .uAppend _ | .uFlag _ | .uIsSet | .sIsSet | .sWait | .sAlive => .safe
  | .uStage j => .uStage j
  | .uClrFin => .uClrFin
  | .uSetTD => .uSetTD
  | .sClrTD => .sClrTD
  | .sClrFin => .sClrFin
  | .sStop j | .sStage j => .sFin j false
  | .sFmtGet j | .sWbufGet j | .sCall j | .sFdGet j | .sFdGet2 j | .sClose j => .sFin j true
  | .done => .done
  | .raisedT | .raisedIO => .raised

inductive WC where
  | wait
  | ds (k : Nat) (late : Bool)    -- inside `ds[k].write()`; `late`: past `wbuf.clear()`
  | setFin
  | clrTD
  | dead
deriving Repr, DecidableEq, Inhabited

def wcls : WPc → WC
  | .wait => .wait
  | .fmtGet i | .wbufGet i | .call i | .wbufGet2 i | .clear i => .ds i false
  | .stopGet i | .flagGet i | .flagSet i | .dFmtGet i | .dWbufGet i | .dCall i | .dFdGet i | .dFdGet2 i
  | .dClose i | .dOpen i | .dFdSet i | .dFdGet3 i | .dCtor i _ | .dFmtSet i => .ds i true
  | .setFin => .setFin
  | .clrTD => .clrTD
  | .dead => .dead

def RC.safe? : RC → Bool
  | .safe => true
  | _ => false

def RC.trig? : RC → Bool
  | .uStage _ | .uClrFin | .uSetTD => true
  | _ => false

/-- `stop()` is in its wait loop -/
def waiting : RPc → Bool
  | .sWait | .sAlive => true
  | _ => false

def inStop : RPc → Bool
  | .sIsSet | .sWait | .sAlive | .sClrTD | .sClrFin | .sStop _ | .sStage _ | .sFmtGet _ | .sWbufGet _ | .sCall _
  | .sFdGet _ | .sFdGet2 _ | .sClose _ | .done | .raisedIO => true
  | _ => false

/-- how the two events relate to the pair of classes -/
def compatC (td fin : Bool) (wt : Bool) : RC → WC → Bool
  | .raised, _ => true
  | rc, .ds _ _ | rc, .setFin | rc, .dead => td && !fin && rc.safe?
  | rc, .clrTD => (!rc.safe? || (td && fin)) && !rc.trig?
  | rc, .wait => if td then !fin && rc.safe? else (!(rc == .uSetTD) || !fin) && (!wt || fin)

def compat (s : State) : Bool := compatC s.td s.fin (waiting s.rpc) (rcls s.rpc) (wcls s.wpc)

/-- ownership frontier: the list `wbuf` of data set `i` refers to holds nothing -/
def mustBeEmptyC (td : Bool) (i : Nat) : RC → WC → Bool
  | .sFin j staged, _ => if staged then decide (j < i) else decide (j ≤ i)
  | .uStage j, _ => decide (j ≤ i)
  | .done, _ | .raised, _ | .uClrFin, _ | .uSetTD, _ => false
  | _, .ds k late => decide (i < k) || (late && decide (i = k))
  | _, .setFin | _, .clrTD => true
  | _, .wait => !td
  | _, .dead => false

def mustBeEmpty (s : State) (i : Nat) : Bool := mustBeEmptyC s.td i (rcls s.rpc) (wcls s.wpc)

/-- `stop()` has staged (for the last time) the read buffer of data set `i` -/
def stagedByStop : RC → Nat → Bool
  | .sFin j staged, i => decide (i < j) || (staged && decide (i = j))
  | .done, _ => true
  | _, _ => false

/-- `stop()` is past `ds[i].close()` -/
def closedByStop : RC → Nat → Bool
  | .sFin j _, i => decide (i < j)
  | .done, _ => true
  | .raised, _ => true            -- no claim once an exception has ended the session
  | _, _ => false

/-! ### file objects -/

/-- where the writer is in `subdivide()` of data set `i`, as far as `fd` / `formatter` / `sub_index` go -/
inductive SubPh where
  | normal        -- `fd = formatter's file = files[sub]`, open
  | fin           -- `finalize` has returned (temp file closed): `dFdGet`, `dFdGet2`, `dClose`
  | closedOld     -- old file closed: `dOpen`
  | opened        -- new file object exists, attributes still point to the old one: `dFdSet`
  | fdSet         -- `fd` is the new file, `formatter` still the old one: `dFdGet3`, `dCtor`, `dFmtSet`
deriving Repr, DecidableEq, Inhabited

def subPh (w : WPc) (i : Nat) : SubPh :=
  match w with
  | .dFdGet k | .dFdGet2 k | .dClose k => if k = i then .fin else .normal
  | .dOpen k => if k = i then .closedOld else .normal
  | .dFdSet k => if k = i then .opened else .normal
  | .dFdGet3 k | .dCtor k _ | .dFmtSet k => if k = i then .fdSet else .normal
  | _ => .normal

/-- `stop()` is between the end of `finalize` and `close` of data set `i` -/
def rFin (r : RPc) (i : Nat) : Bool :=
  match r with
  | .sFdGet j | .sFdGet2 j | .sClose j => decide (j = i)
  | _ => false

def FileOk (d : Ds) (ph : SubPh) (rfin : Bool) : Prop :=
  match ph with
  | .normal => d.fd = d.sub ∧ d.fmt = d.sub ∧ (d.files d.sub).closed = false ∧
      (rfin = false → (d.files d.sub).tclosed = false)
  | .fin => d.fd = d.sub ∧ d.fmt = d.sub ∧ (d.files d.sub).closed = false
  | .closedOld => d.fd = d.sub ∧ d.fmt = d.sub
  | .opened => d.fd + 1 = d.sub ∧ d.fmt + 1 = d.sub ∧ (d.files d.sub).closed = false ∧ (d.files d.sub).tclosed = false
  | .fdSet => d.fd = d.sub ∧ d.fmt + 1 = d.sub ∧ (d.files d.sub).closed = false ∧ (d.files d.sub).tclosed = false

def FileInv (s : State) (i : Nat) : Prop :=
  closedByStop (rcls s.rpc) i = false → s.wpc ≠ .dead → FileOk (s.ds i) (subPh s.wpc i) (rFin s.rpc i)

/-! ### references held in locals -/

def WLoc (c : Cfg) (s : State) : Prop :=
  match s.wpc with
  | .wbufGet i | .dWbufGet i => s.wf = (s.ds i).sub
  | .call i => s.wcall.f = (s.ds i).sub ∧ s.wcall.l = (s.ds i).wb ∧ callOk (c.kind i) s.wcall = true ∧
      s.wcall.ck = .write
  | .dCall i => s.wcall.f = (s.ds i).sub ∧ s.wcall.l = (s.ds i).wb ∧ callOk (c.kind i) s.wcall = true
  | .clear i => s.wl = (s.ds i).wb
  | .dClose i | .dFdSet i | .dFmtSet i => s.wfd = (s.ds i).sub
  | .dCtor i k => s.wfd = (s.ds i).sub ∧ k < (ctorOps (c.kind i)).length
  | _ => True

def RLoc (c : Cfg) (s : State) : Prop :=
  match s.rpc with
  | .uAppend i => appendDue c s.cur i = true
  | .sWbufGet i => s.rf = (s.ds i).sub
  | .sCall i => s.rcall.f = (s.ds i).sub ∧ s.rcall.l = (s.ds i).wb ∧ callOk (c.kind i) s.rcall = true
  | .sClose i => s.rfd = (s.ds i).sub
  | _ => True

/-- the index a program counter carries is a data set -/
def rIdx : RPc → Option Nat
  | .uAppend i | .uFlag i | .uStage i | .sStop i | .sStage i | .sFmtGet i | .sWbufGet i | .sCall i | .sFdGet i
  | .sFdGet2 i | .sClose i => some i
  | _ => none

def wIdx : WPc → Option Nat
  | .fmtGet i | .wbufGet i | .call i | .wbufGet2 i | .clear i | .stopGet i | .flagGet i | .flagSet i | .dFmtGet i
  | .dWbufGet i | .dCall i | .dFdGet i | .dFdGet2 i | .dClose i | .dOpen i | .dFdSet i | .dFdGet3 i | .dCtor i _
  | .dFmtSet i => some i
  | _ => none

/-! ### the data equation -/

/-- the writer's view: staged for data set `i` and not yet written by a first pass -/
def pendW (w : WPc) (wcall : Call) (L : List Msg) (i : Nat) : List Msg :=
  match w with
  | .call k | .dCall k => if i = k then callPend wcall L else L
  | .wbufGet2 k | .clear k => if i = k then [] else L
  | _ => L

/-- staged for data set `i` and not yet written by a first pass -/
def pend (s : State) (i : Nat) : List Msg :=
  let L := (s.ds i).lists (s.ds i).wb
  match s.rpc with
  | .sStop j | .sStage j | .sFmtGet j | .sWbufGet j => if i < j then [] else L
  | .sCall j => if i < j then [] else if i = j then callPend s.rcall L else L
  | .sFdGet j | .sFdGet2 j | .sClose j => if i ≤ j then [] else L
  | .done => []
  | _ => pendW s.wpc s.wcall L i

/-- has the running `update` still to look at data set `i`? -/
def notYet : RPc → Nat → Bool
  | .uAlive, _ => true
  | .uAppend j, i => decide (j ≤ i)
  | .uFlag j, i => decide (j < i)
  | _, _ => false

def curPart (c : Cfg) (s : State) (i : Nat) : List Msg :=
  if notYet s.rpc i then taken (c.sel i) s.cur else []

def dataEq (c : Cfg) (all : List RecOp) (s : State) (i : Nat) : Prop :=
  (s.ds i).written ++ pend s i ++ (s.ds i).lists (s.ds i).rb ++ curPart c s i ++
    accepted (c.sel i) s.paused s.ops = accepted (c.sel i) false all

structure Inv (c : Cfg) (all : List RecOp) (s : State) : Prop where
  compat : compat s = true
  ridx : ∀ j, rIdx s.rpc = some j → j < c.n
  widx : ∀ k, wIdx s.wpc = some k → k < c.n
  wloc : WLoc c s
  rloc : RLoc c s
  rbwb : ∀ i, i < c.n → (s.ds i).wb < (s.ds i).rb
  empty : ∀ i, i < c.n → mustBeEmpty s i = true → (s.ds i).lists (s.ds i).wb = []
  rbufNil : ∀ i, i < c.n → stagedByStop (rcls s.rpc) i = true → (s.ds i).lists (s.ds i).rb = []
  files : ∀ i, i < c.n → FileInv s i
  opsNil : inStop s.rpc = true → s.ops = []
  data : s.wpc ≠ .dead → s.rpc ≠ .raisedIO → s.rpc ≠ .raisedT → ∀ i, i < c.n → dataEq c all s i


theorem written_eq (d : Ds) : d.written = ((List.range (d.sub + 1)).map (fun k => (d.files k).log0)).flatten := rfl

theorem inv_init (c : Cfg) (ops : List RecOp) : Inv c ops (init c ops) := by
  refine ⟨by simp [compat, compatC, init, rcls, wcls, waiting], ?_, ?_, ?_, ?_, ?_, ?_, ?_, ?_, ?_, ?_⟩
  · intro j h; simp [init, rIdx] at h
  · intro k h; simp [init, wIdx] at h
  · simp [WLoc, init]
  · simp [RLoc, init]
  · intro i _; simp [init]
  · intro i _ _; simp [init]
  · intro i _ h; simp [init, stagedByStop, rcls] at h
  · intro i _; simp [FileInv, FileOk, init, subPh, rFin]
  · intro h; simp [init, inStop] at h
  · intro _ _ _ i _
    simp [dataEq, init, pend, pendW, curPart, notYet, written_eq, List.range_succ]


/-! ### generic preservation lemmas: steps of the writer -/

theorem pendW_other (w : WPc) (wcall : Call) (L : List Msg) (i k : Nat) (hk : wIdx w = some k) (hik : i ≠ k) :
    pendW w wcall L i = L := by
  cases w <;> simp_all [pendW, wIdx]

theorem pendW_noIdx (w : WPc) (wcall : Call) (L : List Msg) (i : Nat) (hk : wIdx w = none) :
    pendW w wcall L i = L := by
  cases w <;> simp_all [pendW, wIdx]

theorem subPh_other (w : WPc) (i k : Nat) (hk : wIdx w = some k) (hik : i ≠ k) : subPh w i = .normal := by
  cases w <;> simp_all [subPh, wIdx] <;> omega

theorem subPh_noIdx (w : WPc) (i : Nat) (hk : wIdx w = none) : subPh w i = .normal := by
  cases w <;> simp_all [subPh, wIdx]

theorem wIdx_of_cls (w : WPc) (k : Nat) (b : Bool) (h : wcls w = .ds k b) : wIdx w = some k := by
  cases w <;> simp_all [wcls, wIdx]

theorem RLoc_safe (c : Cfg) (s : State) (h : rcls s.rpc = .safe) :
    RLoc c s ↔ ∀ i, s.rpc = .uAppend i → appendDue c s.cur i = true := by
  unfold RLoc
  cases hr : s.rpc <;> simp_all [rcls]

/-- the part of the state the recording thread's side of the invariant reads -/
structure SameR (s s' : State) : Prop where
  td : s'.td = s.td
  fin : s'.fin = s.fin
  rpc : s'.rpc = s.rpc
  ops : s'.ops = s.ops
  paused : s'.paused = s.paused
  cur : s'.cur = s.cur
  rcall : s'.rcall = s.rcall
  rf : s'.rf = s.rf
  rfd : s'.rfd = s.rfd

theorem pend_safe (s : State) (i : Nat) (h : rcls s.rpc = .safe) :
    pend s i = pendW s.wpc s.wcall ((s.ds i).lists (s.ds i).wb) i := by
  unfold pend
  cases hr : s.rpc <;> simp_all [rcls]


theorem safe_of_wds {s : State} (hc : compat s = true) (hno : rcls s.rpc ≠ .raised) {k : Nat} {late : Bool}
    (hw : wcls s.wpc = .ds k late) : rcls s.rpc = .safe ∧ s.td = true ∧ s.fin = false := by
  unfold compat at hc
  rw [hw] at hc
  cases hr : rcls s.rpc <;> simp_all [compatC, RC.safe?]

/-- a step of the writer inside `ds[k].write()` that touches nothing but data set `k` and its own locals -/
theorem Inv.of_W_inDs {c : Cfg} {all : List RecOp} {s s' : State} (h : Inv c all s) (k : Nat) (late late' : Bool)
    (hno : rcls s.rpc ≠ .raised) (hw : wcls s.wpc = .ds k late) (hw' : wcls s'.wpc = .ds k late')
    (hR : SameR s s') (hother : ∀ i, i ≠ k → s'.ds i = s.ds i)
    (hwloc : WLoc c s') (hrbwb : (s'.ds k).wb < (s'.ds k).rb)
    (hempty : late' = true → (s'.ds k).lists (s'.ds k).wb = [])
    (hfile : FileInv s' k)
    (hdata : dataEq c all s k → dataEq c all s' k) : Inv c all s' := by
  obtain ⟨hsafe, htd, hfin⟩ := safe_of_wds h.compat hno hw
  have hk : k < c.n := h.widx k (wIdx_of_cls _ _ _ hw)
  have hwi := wIdx_of_cls _ _ _ hw
  have hwi' := wIdx_of_cls _ _ _ hw'
  have hwd : s.wpc ≠ .dead := by intro hd; simp [hd, wcls] at hw
  have hwd' : s'.wpc ≠ .dead := by intro hd; simp [hd, wcls] at hw'
  refine ⟨?_, ?_, ?_, hwloc, ?_, ?_, ?_, ?_, ?_, ?_, ?_⟩
  · unfold Fine.compat; rw [hR.td, hR.fin, hR.rpc, hw', hsafe, htd, hfin]; rfl
  · rw [hR.rpc]; exact h.ridx
  · intro j hj; rw [hwi'] at hj; cases hj; exact hk
  · rw [RLoc_safe c s' (by rw [hR.rpc]; exact hsafe), hR.rpc, hR.cur]
    exact (RLoc_safe c s hsafe).1 h.rloc
  · intro i hi
    by_cases hik : i = k
    · subst hik; exact hrbwb
    · rw [hother i hik]; exact h.rbwb i hi
  · intro i hi hm
    unfold mustBeEmpty at hm
    rw [hR.td, hR.rpc, hw', hsafe] at hm
    by_cases hik : i = k
    · subst hik
      apply hempty
      simpa [mustBeEmptyC] using hm
    · rw [hother i hik]
      apply h.empty i hi
      unfold mustBeEmpty; rw [hw, hsafe]
      simp [mustBeEmptyC, hik] at hm ⊢
      exact hm
  · intro i hi hst; rw [hR.rpc, hsafe] at hst; simp [stagedByStop] at hst
  · intro i hi
    by_cases hik : i = k
    · subst hik; exact hfile
    · have := h.files i hi
      unfold FileInv at this ⊢
      rw [hother i hik, hR.rpc, subPh_other _ _ _ hwi' hik]
      rw [subPh_other _ _ _ hwi hik] at this
      intro h1 _
      exact this h1 hwd
  · rw [hR.rpc, hR.ops]; exact h.opsNil
  · intro _ h2 h3 i hi
    rw [hR.rpc] at h2 h3
    have hd := h.data hwd h2 h3 i hi
    by_cases hik : i = k
    · subst hik; exact hdata hd
    · unfold dataEq at hd ⊢
      rw [pend_safe s' i (by rw [hR.rpc]; exact hsafe), pendW_other _ _ _ _ _ hwi' hik]
      rw [pend_safe s i hsafe, pendW_other _ _ _ _ _ hwi hik] at hd
      unfold curPart at hd ⊢
      rw [hother i hik, hR.rpc, hR.cur, hR.paused, hR.ops]
      exact hd


theorem rFin_safe (r : RPc) (i : Nat) (h : rcls r = .safe) : rFin r i = false := by
  cases r <;> simp_all [rcls, rFin]

/-- while the recorder is in a safe place the data equation of a data set only depends on what the writer
does to `written ++ pending ++ rbuf` -/
theorem dataEq_transfer {c : Cfg} {all : List RecOp} {s s' : State} {i : Nat} (hR : SameR s s')
    (hsafe : rcls s.rpc = .safe)
    (hw : (s'.ds i).written ++ pendW s'.wpc s'.wcall ((s'.ds i).lists (s'.ds i).wb) i ++ (s'.ds i).lists (s'.ds i).rb
      = (s.ds i).written ++ pendW s.wpc s.wcall ((s.ds i).lists (s.ds i).wb) i ++ (s.ds i).lists (s.ds i).rb) :
    dataEq c all s i → dataEq c all s' i := by
  intro hd
  unfold dataEq at hd ⊢
  rw [pend_safe s' i (by rw [hR.rpc]; exact hsafe), hw]
  rw [pend_safe s i hsafe] at hd
  unfold curPart at hd ⊢
  rw [hR.rpc, hR.cur, hR.paused, hR.ops]
  exact hd

/-- the file objects of the data set the writer is working on -/
theorem fileOk_of {c : Cfg} {all : List RecOp} {s : State} (h : Inv c all s) (hno : rcls s.rpc ≠ .raised) {k : Nat}
    {late : Bool} (hw : wcls s.wpc = .ds k late) : FileOk (s.ds k) (subPh s.wpc k) false := by
  obtain ⟨hsafe, _, _⟩ := safe_of_wds h.compat hno hw
  have hk : k < c.n := h.widx k (wIdx_of_cls _ _ _ hw)
  have := h.files k hk (by rw [hsafe]; rfl) (by intro hd; simp [hd, wcls] at hw)
  rwa [rFin_safe _ _ hsafe] at this

theorem fileInv_of {s : State} {k : Nat} (ph : SubPh) (hph : subPh s.wpc k = ph) (hsafe : rcls s.rpc = .safe)
    (h : FileOk (s.ds k) ph false) : FileInv s k := by
  intro _ _
  rw [hph, rFin_safe _ _ hsafe]
  exact h


theorem flatten_map_congr {α β} (l : List α) (f g : α → List β) (h : ∀ x ∈ l, f x = g x) :
    (l.map f).flatten = (l.map g).flatten := by
  rw [List.map_congr_left h]

/-- a formatter method running on the current (last) file appends what it emits to `written` -/
theorem written_of_frame {k : Kind} {d d' : Ds} {c : Call} (hfr : CallFrame k d c d') (hf : c.f = d.sub) :
    d'.written = d.written ++ emitted c := by
  rw [written_eq, written_eq, hfr.sub, List.range_succ, List.map_append, List.map_append, List.flatten_append,
    List.flatten_append]
  simp only [List.map_cons, List.map_nil, List.flatten_cons, List.flatten_nil, List.append_nil]
  rw [← hf, hfr.log0, ← List.append_assoc]
  congr 2
  apply flatten_map_congr
  intro x hx
  rw [hfr.other x (by simp at hx; omega)]

/-- replacing a file object by one with the same first-pass log does not change `written` -/
theorem written_setFile (d : Ds) (j : Nat) (fo : FileObj) (h : fo.log0 = (d.files j).log0) :
    (d.setFile j fo).written = d.written := by
  rw [written_eq, written_eq, setFile_sub]
  apply flatten_map_congr
  intro x _
  by_cases hx : x = j
  · subst hx; simp [h]
  · rw [setFile_files_other _ _ hx]


/-- the writer dies (an exception leaves `DataCollection.write`) inside `ds[k].write()` -/
theorem Inv.of_W_dead {c : Cfg} {all : List RecOp} {s s' : State} (h : Inv c all s) (k : Nat) (late : Bool)
    (hno : rcls s.rpc ≠ .raised) (hw : wcls s.wpc = .ds k late) (hw' : s'.wpc = .dead)
    (hR : SameR s s') (hds : s'.ds = s.ds) : Inv c all s' := by
  obtain ⟨hsafe, htd, hfin⟩ := safe_of_wds h.compat hno hw
  refine ⟨?_, ?_, ?_, ?_, ?_, ?_, ?_, ?_, ?_, ?_, ?_⟩
  · unfold Fine.compat; rw [hR.td, hR.fin, hR.rpc, hw', hsafe, htd, hfin]; rfl
  · rw [hR.rpc]; exact h.ridx
  · intro j hj; rw [hw'] at hj; simp [wIdx] at hj
  · simp [WLoc, hw']
  · rw [RLoc_safe c s' (by rw [hR.rpc]; exact hsafe), hR.rpc, hR.cur]
    exact (RLoc_safe c s hsafe).1 h.rloc
  · rw [hds]; exact h.rbwb
  · intro i hi hm
    unfold mustBeEmpty at hm
    rw [hR.rpc, hw', hsafe] at hm
    simp [mustBeEmptyC, wcls] at hm
  · intro i hi hst; rw [hR.rpc, hsafe] at hst; simp [stagedByStop] at hst
  · intro i hi _ hd; exact absurd hw' hd
  · rw [hR.rpc, hR.ops]; exact h.opsNil
  · intro hd; exact absurd hw' hd

theorem nextW_cases (c : Cfg) (k : Nat) :
    (nextW c k = .fmtGet (k + 1) ∧ k + 1 < c.n) ∨ (nextW c k = .setFin ∧ c.n ≤ k + 1) := by
  unfold nextW; split
  · exact Or.inl ⟨rfl, by assumption⟩
  · exact Or.inr ⟨rfl, by omega⟩

/-- the writer leaves `ds[k].write()` for the next data set (or for `write_finished.set()`) -/
theorem Inv.of_W_nextDs {c : Cfg} {all : List RecOp} {s s' : State} (h : Inv c all s) (k : Nat)
    (hno : rcls s.rpc ≠ .raised) (hw : wcls s.wpc = .ds k true) (hw' : s'.wpc = nextW c k)
    (hR : SameR s s') (hother : ∀ i, i ≠ k → s'.ds i = s.ds i)
    (hrbwb : (s'.ds k).wb < (s'.ds k).rb)
    (hemp : (s'.ds k).lists (s'.ds k).wb = [])
    (hfile : FileOk (s'.ds k) .normal false)
    (hdata : (s'.ds k).written ++ (s'.ds k).lists (s'.ds k).wb ++ (s'.ds k).lists (s'.ds k).rb
      = (s.ds k).written ++ pendW s.wpc s.wcall ((s.ds k).lists (s.ds k).wb) k ++ (s.ds k).lists (s.ds k).rb) :
    Inv c all s' := by
  obtain ⟨hsafe, htd, hfin⟩ := safe_of_wds h.compat hno hw
  have hk : k < c.n := h.widx k (wIdx_of_cls _ _ _ hw)
  have hwi := wIdx_of_cls _ _ _ hw
  have hwd : s.wpc ≠ .dead := by intro hd; simp [hd, wcls] at hw
  have hsafe' : rcls s'.rpc = .safe := by rw [hR.rpc]; exact hsafe
  have hcl' : wcls s'.wpc = .ds (k + 1) false ∨ wcls s'.wpc = .setFin := by
    rcases nextW_cases c k with ⟨e, _⟩ | ⟨e, _⟩ <;> rw [hw', e] <;> simp [wcls]
  have hnoidx : ∀ i, subPh s'.wpc i = .normal ∧ ∀ wc L, pendW s'.wpc wc L i = L := by
    intro i
    rcases nextW_cases c k with ⟨e, _⟩ | ⟨e, _⟩ <;> rw [hw', e] <;> simp [subPh, pendW]
  refine ⟨?_, ?_, ?_, ?_, ?_, ?_, ?_, ?_, ?_, ?_, ?_⟩
  · unfold Fine.compat; rw [hR.td, hR.fin, hR.rpc, hsafe, htd, hfin]
    rcases hcl' with e | e <;> rw [e] <;> rfl
  · rw [hR.rpc]; exact h.ridx
  · intro j hj
    rcases nextW_cases c k with ⟨e, hlt⟩ | ⟨e, _⟩ <;> rw [hw', e] at hj <;> simp [wIdx] at hj
    omega
  · rcases nextW_cases c k with ⟨e, _⟩ | ⟨e, _⟩ <;> simp [WLoc, hw', e]
  · rw [RLoc_safe c s' hsafe', hR.rpc, hR.cur]
    exact (RLoc_safe c s hsafe).1 h.rloc
  · intro i hi
    by_cases hik : i = k
    · subst hik; exact hrbwb
    · rw [hother i hik]; exact h.rbwb i hi
  · intro i hi hm
    by_cases hik : i = k
    · subst hik; exact hemp
    · rw [hother i hik]
      apply h.empty i hi
      unfold mustBeEmpty at hm ⊢
      rw [hR.td, hR.rpc, hsafe] at hm
      rw [hw, hsafe]
      rcases nextW_cases c k with ⟨e, hlt⟩ | ⟨e, hge⟩ <;> rw [hw', e] at hm <;>
        simp [mustBeEmptyC, wcls, hik] at hm ⊢ <;> omega
  · intro i hi hst; rw [hR.rpc, hsafe] at hst; simp [stagedByStop] at hst
  · intro i hi
    by_cases hik : i = k
    · subst hik
      intro _ _
      rw [(hnoidx i).1, rFin_safe _ _ hsafe']; exact hfile
    · have := h.files i hi
      unfold FileInv at this ⊢
      rw [hother i hik, hR.rpc, (hnoidx i).1]
      rw [subPh_other _ _ _ hwi hik] at this
      intro h1 _
      exact this h1 hwd
  · rw [hR.rpc, hR.ops]; exact h.opsNil
  · intro _ h2 h3 i hi
    rw [hR.rpc] at h2 h3
    have hd := h.data hwd h2 h3 i hi
    by_cases hik : i = k
    · subst hik
      refine dataEq_transfer hR hsafe ?_ hd
      rw [(hnoidx i).2]; exact hdata
    · unfold dataEq at hd ⊢
      rw [pend_safe s' i hsafe', (hnoidx i).2]
      rw [pend_safe s i hsafe, pendW_other _ _ _ _ _ hwi hik] at hd
      unfold curPart at hd ⊢
      rw [hother i hik, hR.rpc, hR.cur, hR.paused, hR.ops]
      exact hd


/-- program counters of the writer outside every `ds[k].write()` (and the first one of a data set) -/
def plainW (w : WPc) : Prop := ∀ i wc L, subPh w i = .normal ∧ pendW w wc L i = L

theorem plainW_wait : plainW .wait := by intro i wc L; simp [subPh, pendW]
theorem plainW_setFin : plainW .setFin := by intro i wc L; simp [subPh, pendW]
theorem plainW_clrTD : plainW .clrTD := by intro i wc L; simp [subPh, pendW]
theorem plainW_fmtGet (k : Nat) : plainW (.fmtGet k) := by intro i wc L; simp [subPh, pendW]
theorem plainW_firstW (c : Cfg) : plainW (firstW c) := by
  unfold firstW; split
  · exact plainW_fmtGet 0
  · exact plainW_setFin

theorem pend_plain (s s' : State) (i : Nat) (hr : s'.rpc = s.rpc) (hds : s'.ds = s.ds) (hrc : s'.rcall = s.rcall)
    (hp : plainW s.wpc) (hp' : plainW s'.wpc) : pend s' i = pend s i := by
  unfold pend
  rw [hr, hds, hrc]
  simp only [(hp i _ _).2, (hp' i _ _).2]

/-- a step of the writer that only moves its program counter between plain places and touches the events -/
theorem Inv.of_W_flags {c : Cfg} {all : List RecOp} {s s' : State} (h : Inv c all s)
    (hrpc : s'.rpc = s.rpc) (hops : s'.ops = s.ops) (hpaused : s'.paused = s.paused) (hcur : s'.cur = s.cur)
    (hrcall : s'.rcall = s.rcall) (hrf : s'.rf = s.rf) (hrfd : s'.rfd = s.rfd) (hds : s'.ds = s.ds)
    (hp : plainW s.wpc) (hp' : plainW s'.wpc) (hwl : WLoc c s') (hwi : ∀ k, wIdx s'.wpc = some k → k < c.n)
    (hc : Fine.compat s' = true) (he : ∀ i, i < c.n → mustBeEmpty s' i = true → mustBeEmpty s i = true)
    (hdead : s.wpc ≠ .dead) : Inv c all s' := by
  refine ⟨hc, ?_, hwi, hwl, ?_, ?_, ?_, ?_, ?_, ?_, ?_⟩
  · rw [hrpc]; exact h.ridx
  · have := h.rloc
    unfold RLoc at this ⊢
    rw [hrpc, hcur, hrcall, hrf, hrfd, hds]; exact this
  · rw [hds]; exact h.rbwb
  · intro i hi hm; rw [hds]; exact h.empty i hi (he i hi hm)
  · rw [hds, hrpc]; exact h.rbufNil
  · intro i hi
    have := h.files i hi
    unfold FileInv at this ⊢
    rw [hds, hrpc, (hp' i default []).1]
    rw [(hp i default []).1] at this
    intro h1 _; exact this h1 hdead
  · rw [hrpc, hops]; exact h.opsNil
  · intro _ h2 h3 i hi
    rw [hrpc] at h2 h3
    have hd := h.data hdead h2 h3 i hi
    unfold dataEq at hd ⊢
    rw [pend_plain s s' i hrpc hds hrcall hp hp']
    unfold curPart at hd ⊢
    rw [hds, hrpc, hcur, hpaused, hops]; exact hd

end Pyrtma.DataLog.Fine
