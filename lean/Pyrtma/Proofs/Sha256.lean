import Pyrtma.Model.Sha256
/-!
Facts about the SHA-256 model that the C13 theorems use, and the published test vectors as kernel-checked theorems
(`decide +kernel`: the kernel evaluates `Nat` arithmetic and bit operations natively).
-/
namespace Pyrtma.Sha256

/-! ### published vectors (FIPS 180-4 examples, NIST CSRC "SHA256.pdf", CAVP SHA256ShortMsg) -/

theorem nist_empty : hexDigest [] = "e3b0c44298fc1c149afbf4c8996fb92427ae41e4649b934ca495991b7852b855".toList := by
  decide +kernel

theorem nist_abc : hexDigest (utf8 "abc".toList) =
    "ba7816bf8f01cfea414140de5dae2223b00361a396177a9cb410ff61f20015ad".toList := by decide +kernel

/-- the 448-bit message: padding spills into a second block -/
theorem nist_448 : hexDigest (utf8 "abcdbcdecdefdefgefghfghighijhijkijkljklmklmnlmnomnopnopq".toList) =
    "248d6a61d20638b8e5c026930c3e6039a33ce45964ff2167f6ecedd419db06c1".toList := by decide +kernel

/-- the 896-bit message: two data blocks -/
theorem nist_896 : hexDigest (utf8
    "abcdefghbcdefghicdefghijdefghijkefghijklfghijklmghijklmnhijklmnoijklmnopjklmnopqklmnopqrlmnopqrsmnopqrstnopqrstu".toList) =
    "cf5b16a778af8380036ce59e7b0492370b249b11e8f07a51afac45037afee9d1".toList := by decide +kernel

theorem nist_byte_bd : hexDigest [0xbd] = "68325720aabd7c82f30f554b313d0570c95accbb7dc4b5aae11204c08ffe732b".toList := by
  decide +kernel

theorem nist_c98c8e55 : hexDigest [0xc9, 0x8c, 0x8e, 0x55] =
    "7abc22c0ae5af26ce93dbb94433a0e0b2e119d014f8e7f65bd56c61ccccd9504".toList := by decide +kernel

/-- 55 zero bytes: the longest message whose padding fits one block; 56: the shortest that needs two -/
theorem nist_55_zeros : hexDigest (List.replicate 55 0) =
    "02779466cdec163811d078815c633f21901413081449002f24aa3e80f0b88ef7".toList := by decide +kernel
theorem nist_56_zeros : hexDigest (List.replicate 56 0) =
    "d4817aa5497628e7c77e6b606107042bbba3130888c5f47a375e6179be789fbb".toList := by decide +kernel
theorem nist_64_zeros : hexDigest (List.replicate 64 0) =
    "f5a5fd42d16a20302798ef6ed309979b43003d2320d9f0e8ea9831a92759fb4b".toList := by decide +kernel

/-- a definition text as the parser hashes it (`MDF.hash` of the signal `M` with id 12) -/
theorem def_text_vector : hexDigest (utf8 "M:\n  id: 12\n  fields: null".toList) =
    "03dc61824f3a3d3c6851540ce9153dc1289a2d665096ffbd5d01a2a7e31ba094".toList := by decide +kernel

/-! ### shape of the result -/

theorem add32_lt (a b : Nat) : add32 a b < two32 := Nat.mod_lt _ (by decide)

theorem compress_a_lt (h : H8) (w : List Nat) : (compress h w).a < two32 := add32_lt _ _

theorem blocksFold_a_lt : ∀ (n : Nat) (h : H8) (ws : List Nat), h.a < two32 → (blocksFold n h ws).a < two32
  | 0, _, _, hh => hh
  | n + 1, h, _, _ => blocksFold_a_lt n _ _ (compress_a_lt h _)

/-- the version hash is a 32-bit number -/
theorem word0_lt (msg : List Nat) : word0 msg < two32 := by
  unfold word0 digestWords
  simp only [List.getD_cons_zero]
  exact blocksFold_a_lt _ _ _ (by decide)

theorem hex8_length (w : Nat) : (hex8 w).length = 8 := rfl

/-- `hexdigest()[:8]` is the hex spelling of `word0` — the truncation every back end applies -/
theorem hexDigest_take8 (msg : List Nat) : (hexDigest msg).take 8 = hex8 (word0 msg) := by
  unfold hexDigest word0 digestWords
  simp [List.flatMap_cons, hex8]

theorem hexDigest_length (msg : List Nat) : (hexDigest msg).length = 64 := by
  unfold hexDigest digestWords
  simp [List.flatMap_cons, hex8]

end Pyrtma.Sha256
