import Pyrtma.Spec.ClientSub
/-! Helper lemmas for C02.  Lists are used as sets: everything is reduced to membership.  Core Lean only. -/
namespace Pyrtma.ClientSub

/-! ### set operations -/

@[simp] theorem mem_union {a b : List Int} {x : Int} : x ∈ union a b ↔ x ∈ a ∨ x ∈ b := by
  simp only [union, List.mem_append, List.mem_filter, Bool.not_eq_true', List.contains_eq_mem,
    decide_eq_false_iff_not]
  constructor
  · rintro (h | ⟨h, _⟩)
    · exact .inl h
    · exact .inr h
  · rintro (h | h)
    · exact .inl h
    · by_cases ha : x ∈ a
      · exact .inl ha
      · exact .inr ⟨h, ha⟩

@[simp] theorem mem_diff {a b : List Int} {x : Int} : x ∈ diff a b ↔ x ∈ a ∧ x ∉ b := by
  simp [diff]

@[simp] theorem mem_dedup {l : List Int} {x : Int} : x ∈ dedup l ↔ x ∈ l := by
  induction l with
  | nil => simp [dedup]
  | cons y ys ih =>
    simp only [dedup, List.mem_cons, List.mem_filter, bne_iff_ne, ne_eq, ih]
    constructor
    · rintro (h | ⟨h, _⟩)
      · exact .inl h
      · exact .inr h
    · rintro (h | h)
      · exact .inl h
      · by_cases hx : x = y
        · exact .inl hx
        · exact .inr ⟨h, hx⟩

theorem seteq_iff {a b : List Int} : seteq a b = true ↔ ∀ x, x ∈ a ↔ x ∈ b := by
  simp only [seteq, Bool.and_eq_true, List.all_eq_true, List.contains_eq_mem, decide_eq_true_eq]
  constructor
  · rintro ⟨h1, h2⟩ x; exact ⟨h1 x, h2 x⟩
  · intro h; exact ⟨fun x hx => (h x).1 hx, fun x hx => (h x).2 hx⟩

theorem seteq_refl (a : List Int) : seteq a a = true := seteq_iff.mpr (fun _ => Iff.rfl)

theorem mem_msgSet {l : List Int} {x : Int} :
    x ∈ msgSet l ↔ (if ALL ∈ l then x = ALL else x ∈ l) := by
  unfold msgSet
  by_cases h : ALL ∈ l <;> simp [h]

/-! ### invariants -/

/-- what holds of every reachable client state -/
structure CInv (c : CState) : Prop where
  all_sub : c.subAll = true → (∀ t, t ∈ c.subscribed ↔ t = ALL) ∧ (∀ t, t ∉ c.paused)
  not_all : c.subAll = false → ALL ∉ c.subscribed
  paused_no_all : ALL ∉ c.paused
  disjoint : ∀ t, t ∈ c.subscribed → t ∉ c.paused

/-- the manager's two tables describe the same set; subscribed-to-all excludes individual entries -/
structure MInv (m : MState) : Prop where
  idx : ∀ t, t ∈ m.index ↔ t ∈ m.subs
  all_only : ALL ∈ m.subs → ∀ t, t ∈ m.subs → t = ALL

/-- client and manager agree -/
structure Agree (c : CState) (m : MState) : Prop where
  cinv : CInv c
  minv : MInv m
  same : ∀ t, t ∈ m.subs ↔ t ∈ c.subscribed

theorem cinv_init : CInv CState.init := by
  constructor <;> simp [CState.init]

theorem minv_init : MInv MState.init := by
  constructor <;> simp [MState.init]

theorem agree_init : Agree CState.init MState.init :=
  ⟨cinv_init, minv_init, by simp [CState.init, MState.init]⟩

/-! ### the manager, one frame at a time -/

theorem mgrAdd_inv {m : MState} (h : MInv m) (t : Int) : MInv (mgrAdd m t) := by
  unfold mgrAdd
  by_cases ht : t = ALL
  · simp only [ht, beq_self_eq_true, if_true]
    constructor
    · intro x; simp only [mem_union, mem_diff, List.mem_singleton, h.idx]
      constructor
      · rintro (⟨h1, h2⟩ | h1)
        · exact absurd h1 h2
        · exact h1
      · intro h1; exact .inr h1
    · intro _ x hx; simpa using hx
  · have ht' : (t == ALL) = false := by simpa using ht
    simp only [ht', Bool.false_eq_true, if_false]
    by_cases ha : ALL ∈ m.subs
    · simp [ha, h]
    · simp only [List.contains_eq_mem, ha, decide_false, Bool.false_eq_true, if_false]
      constructor
      · intro x; simp [h.idx]
      · intro hall; simp only [mem_union, List.mem_singleton] at hall
        rcases hall with hall | hall
        · exact absurd hall ha
        · exact absurd hall.symm ht

theorem mgrRemove_inv {m : MState} (h : MInv m) (t : Int) : MInv (mgrRemove m t) := by
  unfold mgrRemove
  by_cases ht : t = ALL
  · simp only [ht, beq_self_eq_true, if_true]
    constructor
    · intro x; simp only [mem_diff, List.mem_singleton, h.idx, List.not_mem_nil, iff_false, not_and,
        Classical.not_not]
      intro h1; exact h1.1
    · intro h1; simp at h1
  · have ht' : (t == ALL) = false := by simpa using ht
    simp only [ht', Bool.false_eq_true, if_false]
    by_cases ha : ALL ∈ m.subs
    · simp [ha, h]
    · simp only [List.contains_eq_mem, ha, decide_false, Bool.false_eq_true, if_false]
      constructor
      · intro x; simp [h.idx]
      · intro hall; simp only [mem_diff] at hall; exact absurd hall.1 ha

theorem mgrStep_inv {m : MState} (h : MInv m) (f : Frame) : MInv (mgrStep m f) := by
  cases f with
  | reset => exact minv_init
  | ctl k t => cases k <;> first | exact mgrAdd_inv h t | exact mgrRemove_inv h t

theorem mgrRun_inv (fr : List Frame) : ∀ {m : MState}, MInv m → MInv (mgrRun m fr) := by
  induction fr with
  | nil => intro m h; exact h
  | cons f fr ih => intro m h; exact ih (mgrStep_inv h f)

theorem mgrRun_append (m : MState) (a b : List Frame) : mgrRun m (a ++ b) = mgrRun (mgrRun m a) b := by
  simp [mgrRun, List.foldl_append]


/-! ### the manager, a whole batch of same-kind frames in ANY order
(`for msg_type in msg_set` iterates a Python set: the order on the wire is not specified) -/

def isAdd : Ctl → Bool
  | .subscribe | .resume => true
  | _ => false

theorem mgrStep_add {k : Ctl} (hk : isAdd k = true) (m : MState) (t : Int) :
    mgrStep m (.ctl k t) = mgrAdd m t := by
  cases k <;> simp_all [isAdd, mgrStep]

theorem mgrStep_remove {k : Ctl} (hk : isAdd k = false) (m : MState) (t : Int) :
    mgrStep m (.ctl k t) = mgrRemove m t := by
  cases k <;> simp_all [isAdd, mgrStep]

theorem run_add {k : Ctl} (hk : isAdd k = true) : ∀ (fr : List Frame) (m : MState),
    (∀ f ∈ fr, ∃ t, f = .ctl k t ∧ t ≠ ALL) → ALL ∉ m.subs →
    (∀ t, t ∈ (mgrRun m fr).subs ↔ t ∈ m.subs ∨ Frame.ctl k t ∈ fr) ∧
    (∀ t, t ∈ (mgrRun m fr).index ↔ t ∈ m.index ∨ Frame.ctl k t ∈ fr) ∧ ALL ∉ (mgrRun m fr).subs
  | [], m, _, ha => by simp [mgrRun, ha]
  | f :: fr, m, hf, ha => by
    obtain ⟨t0, rfl, ht0⟩ := hf f (by simp)
    have ht0' : (t0 == ALL) = false := by simpa using ht0
    have hstep : mgrStep m (.ctl k t0) = ⟨union m.subs [t0], union m.index [t0]⟩ := by
      rw [mgrStep_add hk]; simp [mgrAdd, ht0', ha]
    have ha1 : ALL ∉ (mgrStep m (.ctl k t0)).subs := by
      rw [hstep]; simp only [mem_union, List.mem_singleton, not_or]; exact ⟨ha, fun h => ht0 h.symm⟩
    obtain ⟨h1, h2, h3⟩ := run_add hk fr (mgrStep m (.ctl k t0)) (fun g hg => hf g (by simp [hg])) ha1
    have hrun : mgrRun m (.ctl k t0 :: fr) = mgrRun (mgrStep m (.ctl k t0)) fr := rfl
    rw [hrun]
    refine ⟨?_, ?_, h3⟩
    · intro t; rw [h1 t, hstep]; simp only [mem_union, List.mem_cons, List.not_mem_nil, or_false, Frame.ctl.injEq, true_and]
      constructor
      · rintro ((h | h) | h)
        · exact .inl h
        · exact .inr (.inl h)
        · exact .inr (.inr h)
      · rintro (h | h | h)
        · exact .inl (.inl h)
        · exact .inl (.inr h)
        · exact .inr h
    · intro t; rw [h2 t, hstep]; simp only [mem_union, List.mem_cons, List.not_mem_nil, or_false, Frame.ctl.injEq, true_and]
      constructor
      · rintro ((h | h) | h)
        · exact .inl h
        · exact .inr (.inl h)
        · exact .inr (.inr h)
      · rintro (h | h | h)
        · exact .inl (.inl h)
        · exact .inl (.inr h)
        · exact .inr h

theorem run_remove {k : Ctl} (hk : isAdd k = false) : ∀ (fr : List Frame) (m : MState),
    (∀ f ∈ fr, ∃ t, f = .ctl k t ∧ t ≠ ALL) → ALL ∉ m.subs →
    (∀ t, t ∈ (mgrRun m fr).subs ↔ t ∈ m.subs ∧ Frame.ctl k t ∉ fr) ∧
    (∀ t, t ∈ (mgrRun m fr).index ↔ t ∈ m.index ∧ Frame.ctl k t ∉ fr) ∧ ALL ∉ (mgrRun m fr).subs
  | [], m, _, ha => by simp [mgrRun, ha]
  | f :: fr, m, hf, ha => by
    obtain ⟨t0, rfl, ht0⟩ := hf f (by simp)
    have ht0' : (t0 == ALL) = false := by simpa using ht0
    have hstep : mgrStep m (.ctl k t0) = ⟨diff m.subs [t0], diff m.index [t0]⟩ := by
      rw [mgrStep_remove hk]; simp [mgrRemove, ht0', ha]
    have ha1 : ALL ∉ (mgrStep m (.ctl k t0)).subs := by
      rw [hstep]; simp only [mem_diff, List.mem_singleton, not_and]; intro h; exact absurd h ha
    obtain ⟨h1, h2, h3⟩ := run_remove hk fr (mgrStep m (.ctl k t0)) (fun g hg => hf g (by simp [hg])) ha1
    have hrun : mgrRun m (.ctl k t0 :: fr) = mgrRun (mgrStep m (.ctl k t0)) fr := rfl
    rw [hrun]
    refine ⟨?_, ?_, h3⟩
    · intro t; rw [h1 t, hstep]
      simp only [mem_diff, List.mem_cons, List.not_mem_nil, or_false, Frame.ctl.injEq, true_and, not_or]
      constructor
      · rintro ⟨⟨a, b⟩, c⟩; exact ⟨a, b, c⟩
      · rintro ⟨a, b, c⟩; exact ⟨⟨a, b⟩, c⟩
    · intro t; rw [h2 t, hstep]
      simp only [mem_diff, List.mem_cons, List.not_mem_nil, or_false, Frame.ctl.injEq, true_and, not_or]
      constructor
      · rintro ⟨⟨a, b⟩, c⟩; exact ⟨a, b, c⟩
      · rintro ⟨a, b, c⟩; exact ⟨⟨a, b⟩, c⟩

/-- both tables say "ALL and nothing else" -/
def OnlyAll (m : MState) : Prop := (∀ t, t ∈ m.subs ↔ t = ALL) ∧ (∀ t, t ∈ m.index ↔ t = ALL)
/-- both tables are empty -/
def Nothing (m : MState) : Prop := (∀ t, t ∉ m.subs) ∧ (∀ t, t ∉ m.index)

theorem add_all_of_inv {m : MState} (h : MInv m) : OnlyAll (mgrAdd m ALL) := by
  simp only [mgrAdd, beq_self_eq_true, if_true, OnlyAll, List.mem_singleton, mem_union, mem_diff, h.idx]
  refine ⟨fun _ => trivial, fun t => ?_⟩
  constructor
  · rintro (⟨a, b⟩ | a)
    · exact absurd a b
    · exact a
  · intro a; exact .inr a

theorem remove_all_of_inv {m : MState} (h : MInv m) : Nothing (mgrRemove m ALL) := by
  simp only [mgrRemove, beq_self_eq_true, if_true, Nothing, List.not_mem_nil, not_false_eq_true, implies_true,
    mem_diff, List.mem_singleton, h.idx, true_and]
  intro t ⟨⟨a, _⟩, c⟩; exact c a

theorem onlyAll_inv {m : MState} (h : OnlyAll m) : MInv m :=
  ⟨fun t => by rw [h.1 t, h.2 t], fun _ t ht => (h.1 t).1 ht⟩

theorem nothing_inv {m : MState} (h : Nothing m) : MInv m :=
  ⟨fun t => by simp [h.1 t, h.2 t], fun ha => absurd ha (h.1 ALL)⟩

theorem run_all_add {k : Ctl} (hk : isAdd k = true) : ∀ (fr : List Frame) (m : MState),
    (∀ f ∈ fr, f = .ctl k ALL) → OnlyAll m → OnlyAll (mgrRun m fr)
  | [], _, _, h => h
  | f :: fr, m, hf, h => by
    have hf0 := hf f (by simp); subst hf0
    have : OnlyAll (mgrStep m (.ctl k ALL)) := by
      rw [mgrStep_add hk]; exact add_all_of_inv (onlyAll_inv h)
    exact run_all_add hk fr _ (fun g hg => hf g (by simp [hg])) this

theorem run_all_remove {k : Ctl} (hk : isAdd k = false) : ∀ (fr : List Frame) (m : MState),
    (∀ f ∈ fr, f = .ctl k ALL) → Nothing m → Nothing (mgrRun m fr)
  | [], _, _, h => h
  | f :: fr, m, hf, h => by
    have hf0 := hf f (by simp); subst hf0
    have : Nothing (mgrStep m (.ctl k ALL)) := by
      rw [mgrStep_remove hk]; exact remove_all_of_inv (nothing_inv h)
    exact run_all_remove hk fr _ (fun g hg => hf g (by simp [hg])) this


/-! ### `_subscription_control`, by cases -/

/-- the client state after a change of individual types `D` -/
def indState (c : CState) (k : Ctl) (D : List Int) : CState :=
  match k with
  | .subscribe | .resume => ⟨c.subAll, union c.subscribed D, diff c.paused D⟩
  | .unsubscribe => ⟨c.subAll, diff c.subscribed D, diff c.paused D⟩
  | .pause => ⟨c.subAll, diff c.subscribed D, union c.paused D⟩

theorem control_refused (c : CState) (k : Ctl) (l : List Int) (hs : c.subAll = true) (hl : ALL ∉ l) :
    control c k l = ⟨c, [], .refused⟩ := by
  simp [control, hs, hl]

theorem control_all_add (c : CState) {k : Ctl} (hk : isAdd k = true) (l : List Int) (hl : ALL ∈ l) :
    control c k l = ⟨⟨true, [ALL], []⟩, [.ctl k ALL], .ok⟩ := by
  cases k <;> simp_all [control, msgSet, isAdd]

theorem control_all_remove (c : CState) {k : Ctl} (hk : isAdd k = false) (l : List Int) (hl : ALL ∈ l) :
    control c k l = ⟨⟨false, [], []⟩, [.ctl k ALL], .ok⟩ := by
  cases k <;> simp_all [control, msgSet, isAdd]

theorem control_ind (c : CState) (k : Ctl) (l : List Int) (hs : c.subAll = false) (hl : ALL ∉ l) :
    control c k l = ⟨indState c k (dedup l), (dedup l).map (Frame.ctl k), .ok⟩ := by
  cases k <;> simp [control, msgSet, indState, hs, hl]

theorem status_refused_iff (c : CState) (k : Ctl) (l : List Int) :
    (control c k l).status = .refused ↔ (c.subAll = true ∧ ALL ∉ l) := by
  by_cases hs : c.subAll = true
  · by_cases hl : ALL ∈ l
    · by_cases hk : isAdd k = true
      · simp [control_all_add c hk l hl, hl]
      · simp [control_all_remove c (by simpa using hk) l hl, hl]
    · simp [control_refused c k l hs hl, hs, hl]
  · have hs' : c.subAll = false := by simpa using hs
    by_cases hl : ALL ∈ l
    · by_cases hk : isAdd k = true
      · simp [control_all_add c hk l hl, hs']
      · simp [control_all_remove c (by simpa using hk) l hl, hs']
    · simp [control_ind c k l hs' hl, hs']

theorem indState_inv {c : CState} (h : CInv c) (hs : c.subAll = false) (k : Ctl) (D : List Int) (hD : ALL ∉ D) :
    CInv (indState c k D) := by
  have hna := h.not_all hs
  have hpa := h.paused_no_all
  have hdj := h.disjoint
  have hadd : CInv ⟨c.subAll, union c.subscribed D, diff c.paused D⟩ := by
    constructor
    · intro h1; simp [hs] at h1
    · intro _; simp only [mem_union, not_or]; exact ⟨hna, hD⟩
    · simp only [mem_diff, not_and]; intro h1; exact absurd h1 hpa
    · intro t; simp only [mem_union, mem_diff, not_and]
      rintro (h1 | h1) h2
      · exact absurd h2 (hdj t h1)
      · exact fun h3 => h3 h1
  cases k <;> simp only [indState]
  · exact hadd
  · constructor
    · intro h1; simp [hs] at h1
    · intro _; simp only [mem_diff, not_and]; intro h1; exact absurd h1 hna
    · simp only [mem_diff, not_and]; intro h1; exact absurd h1 hpa
    · intro t; simp only [mem_diff, not_and]
      rintro ⟨h1, _⟩ h3; exact absurd h3 (hdj t h1)
  · constructor
    · intro h1; simp [hs] at h1
    · intro _; simp only [mem_diff, not_and]; intro h1; exact absurd h1 hna
    · simp only [mem_union, not_or]; exact ⟨hpa, hD⟩
    · intro t; simp only [mem_union, mem_diff, not_or]
      rintro ⟨h1, h2⟩; exact ⟨hdj t h1, h2⟩
  · exact hadd

theorem control_inv {c : CState} (h : CInv c) (k : Ctl) (l : List Int) : CInv (control c k l).st := by
  by_cases hl : ALL ∈ l
  · by_cases hk : isAdd k = true
    · rw [control_all_add c hk l hl]; constructor <;> simp
    · rw [control_all_remove c (by simpa using hk) l hl]; constructor <;> simp
  · by_cases hs : c.subAll = true
    · rw [control_refused c k l hs hl]; exact h
    · have hs' : c.subAll = false := by simpa using hs
      rw [control_ind c k l hs' hl]
      exact indState_inv h hs' k _ (by simpa using hl)


/-! ### one control call against the manager, frames in any order -/

theorem mem_indState_add {c : CState} {k : Ctl} (hk : isAdd k = true) (D : List Int) (t : Int) :
    t ∈ (indState c k D).subscribed ↔ t ∈ c.subscribed ∨ t ∈ D := by
  cases k <;> simp_all [isAdd, indState]

theorem mem_indState_remove {c : CState} {k : Ctl} (hk : isAdd k = false) (D : List Int) (t : Int) :
    t ∈ (indState c k D).subscribed ↔ t ∈ c.subscribed ∧ t ∉ D := by
  cases k <;> simp_all [isAdd, indState]

/-- `fr` carries the same frames as the model's canonical list, in any order and multiplicity -/
def SameFrames (fr canon : List Frame) : Prop := ∀ f, f ∈ fr ↔ f ∈ canon

theorem sameFrames_nil {fr : List Frame} (h : SameFrames fr []) : fr = [] := by
  cases fr with
  | nil => rfl
  | cons f fr => exact absurd ((h f).1 (by simp)) (by simp)

/-- **Key lemma.**  If client and manager agree, they agree again after any `_subscription_control` call, whatever
the order in which its control frames reach the manager. -/
theorem control_agree {c : CState} {m : MState} (h : Agree c m) (k : Ctl) (l : List Int) (fr : List Frame)
    (hfr : SameFrames fr (control c k l).frames) : Agree (control c k l).st (mgrRun m fr) := by
  have hci := control_inv h.cinv k l
  have hmi : MInv (mgrRun m fr) := mgrRun_inv fr h.minv
  refine ⟨hci, hmi, ?_⟩
  by_cases hl : ALL ∈ l
  · -- the whole batch is [ALL]
    have hall : ∀ f ∈ fr, f = .ctl k ALL := by
      intro f hf
      have := (hfr f).1 hf
      by_cases hk : isAdd k = true
      · simpa [control_all_add c hk l hl] using this
      · simpa [control_all_remove c (by simpa using hk) l hl] using this
    have hne : fr ≠ [] := by
      intro h0
      have := (hfr (.ctl k ALL)).2 (by
        by_cases hk : isAdd k = true
        · simp [control_all_add c hk l hl]
        · simp [control_all_remove c (by simpa using hk) l hl])
      simp [h0] at this
    obtain ⟨f, fr', rfl⟩ := List.exists_cons_of_ne_nil hne
    have hf := hall f (by simp); subst hf
    have hrun : mgrRun m (.ctl k ALL :: fr') = mgrRun (mgrStep m (.ctl k ALL)) fr' := rfl
    by_cases hk : isAdd k = true
    · have h1 : OnlyAll (mgrStep m (.ctl k ALL)) := by rw [mgrStep_add hk]; exact add_all_of_inv h.minv
      have h2 := run_all_add hk fr' _ (fun g hg => hall g (by simp [hg])) h1
      rw [hrun, control_all_add c hk l hl]
      intro t; simp [h2.1 t]
    · have hk' : isAdd k = false := by simpa using hk
      have h1 : Nothing (mgrStep m (.ctl k ALL)) := by rw [mgrStep_remove hk']; exact remove_all_of_inv h.minv
      have h2 := run_all_remove hk' fr' _ (fun g hg => hall g (by simp [hg])) h1
      rw [hrun, control_all_remove c hk' l hl]
      intro t; simp [h2.1 t]
  · by_cases hs : c.subAll = true
    · -- refused: nothing on the wire
      rw [control_refused c k l hs hl] at hfr ⊢
      rw [sameFrames_nil hfr]
      exact h.same
    · have hs' : c.subAll = false := by simpa using hs
      rw [control_ind c k l hs' hl] at hfr ⊢
      have hna : ALL ∉ m.subs := fun hh => h.cinv.not_all hs' ((h.same ALL).1 hh)
      have hshape : ∀ f ∈ fr, ∃ t, f = .ctl k t ∧ t ≠ ALL := by
        intro f hf
        have := (hfr f).1 hf
        simp only [List.mem_map, mem_dedup] at this
        obtain ⟨t, ht, rfl⟩ := this
        exact ⟨t, rfl, fun h0 => hl (h0 ▸ ht)⟩
      have hmem : ∀ t, Frame.ctl k t ∈ fr ↔ t ∈ dedup l := by
        intro t; rw [hfr]; simp
      by_cases hk : isAdd k = true
      · obtain ⟨h1, _, _⟩ := run_add hk fr m hshape hna
        intro t; rw [h1 t, mem_indState_add hk, hmem t, h.same t]
      · have hk' : isAdd k = false := by simpa using hk
        obtain ⟨h1, _, _⟩ := run_remove hk' fr m hshape hna
        intro t; rw [h1 t, mem_indState_remove hk', hmem t, h.same t]

theorem sameFrames_refl (fr : List Frame) : SameFrames fr fr := fun _ => Iff.rfl


/-! ### the phases of an API call, chained -/

structure PhaseOk (cprev : CState) (mprev : MState) (x : Phase × MState) : Prop where
  agree : Agree x.1.st x.2
  refused : x.1.status = .refused → x.1.frames = [] ∧ x.1.st = cprev ∧ x.2 = mprev ∧ ALL ∈ cprev.subscribed

inductive ChainOk : CState → MState → List (Phase × MState) → Prop
  | nil (c : CState) (m : MState) : ChainOk c m []
  | cons {c : CState} {m : MState} {x : Phase × MState} {r : List (Phase × MState)} :
      PhaseOk c m x → ChainOk x.1.st x.2 r → ChainOk c m (x :: r)

theorem control_phaseOk {c : CState} {m : MState} (h : Agree c m) (k : Ctl) (l : List Int) :
    PhaseOk c m (control c k l, mgrRun m (control c k l).frames) := by
  refine ⟨control_agree h k l _ (sameFrames_refl _), ?_⟩
  intro hr
  obtain ⟨hs, hl⟩ := (status_refused_iff c k l).1 hr
  have := ((h.cinv.all_sub hs).1 ALL).2 rfl
  simp [control_refused c k l hs hl, mgrRun, this]

theorem unsub_not_subAll (c : CState) (l : List Int) (h : (control c .unsubscribe l).status ≠ .refused) :
    (control c .unsubscribe l).st.subAll = false := by
  by_cases hl : ALL ∈ l
  · simp [control_all_remove c (k := .unsubscribe) rfl l hl]
  · by_cases hs : c.subAll = true
    · exact absurd ((status_refused_iff c .unsubscribe l).2 ⟨hs, hl⟩) h
    · have hs' : c.subAll = false := by simpa using hs
      simp [control_ind c .unsubscribe l hs' hl, indState, hs']

theorem status_cases (s : Status) : s = .ok ∨ s = .refused := by cases s <;> simp

theorem sysStep_chain {s : Sys} (h : Agree s.c s.m) (op : Op) :
    ChainOk s.c s.m (sysStep s op) ∧ sysStep s op ≠ [] := by
  have one : ∀ k l, ChainOk s.c s.m (sysPhases s.m [control s.c k l]) ∧ sysPhases s.m [control s.c k l] ≠ [] :=
    fun k l => ⟨.cons (control_phaseOk h k l) (.nil _ _), by simp [sysPhases]⟩
  cases op with
  | ctl k l => exact one k l
  | unsubAll => exact one _ _
  | pauseAll => exact one _ _
  | resumeAll => exact one _ _
  | reconnect =>
    refine ⟨.cons ⟨?_, ?_⟩ (.nil _ _), by simp [sysStep, runOp, sysPhases]⟩
    · simpa [mgrRun, mgrStep] using agree_init
    · intro hr; simp at hr
  | subCtx l =>
    simp only [sysStep, runOp]
    generalize l.filter (fun t => !s.c.subscribed.contains t) = kept
    generalize kept.filter (fun t => s.c.paused.contains t) = W
    have ok1 := control_phaseOk h .subscribe kept
    split
    · exact ⟨.cons ok1 (.nil _ _), by simp [sysPhases]⟩
    · have ok2 := control_phaseOk ok1.agree .unsubscribe kept
      split
      · exact ⟨.cons ok1 (.cons ok2 (.nil _ _)), by simp [sysPhases]⟩
      · rename_i hnr
        simp only [Bool.or_eq_true, beq_iff_eq, not_or] at hnr
        have hsa := unsub_not_subAll (control s.c .subscribe kept).st kept hnr.1
        have ok3 := control_phaseOk ok2.agree .pause W
        refine ⟨.cons ok1 (.cons ⟨?_, ?_⟩ (.nil _ _)), by simp [sysPhases]⟩
        · simpa [mgrRun_append] using ok3.agree
        · intro hr
          have := (status_refused_iff _ .pause W).1 hr
          rw [hsa] at this; simp at this
  | pauseCtx l =>
    simp only [sysStep, runOp]
    generalize l.filter (fun t => s.c.subscribed.contains t) = kept
    have ok1 := control_phaseOk h .pause kept
    split
    · exact ⟨.cons ok1 (.nil _ _), by simp [sysPhases]⟩
    · exact ⟨.cons ok1 (.cons (control_phaseOk ok1.agree .resume kept) (.nil _ _)), by simp [sysPhases]⟩

theorem sysAfter_indep (s s' : Sys) : ∀ (xs : List (Phase × MState)), xs ≠ [] → sysAfter s xs = sysAfter s' xs
  | [], h => absurd rfl h
  | [_], _ => rfl
  | _ :: y :: r, _ => by
    simp only [sysAfter]
    exact sysAfter_indep s s' (y :: r) (by simp)

theorem chain_last {c : CState} {m : MState} {xs : List (Phase × MState)} (h : ChainOk c m xs)
    (h0 : Agree c m) : Agree (sysAfter ⟨c, m⟩ xs).c (sysAfter ⟨c, m⟩ xs).m := by
  induction h with
  | nil => exact h0
  | @cons c m x r hx _ ih =>
    cases r with
    | nil => exact hx.agree
    | cons y r' =>
      have := ih hx.agree
      rw [sysAfter_indep _ ⟨c, m⟩ (y :: r') (by simp)] at this
      simpa [sysAfter] using this


/-! ### from agreement to what can be observed -/

theorem delivered_iff {c : CState} {m : MState} (h : Agree c m) (t : Int) :
    delivered m t = true ↔ (t ∈ c.subscribed ∨ ALL ∈ c.subscribed) := by
  simp only [delivered, Bool.or_eq_true, List.contains_eq_mem, decide_eq_true_eq, h.minv.idx, h.same]

theorem paused_not_delivered {c : CState} {m : MState} (h : Agree c m) (t : Int) (ht : t ∈ c.paused) :
    delivered m t = false := by
  rw [Bool.eq_false_iff]
  intro hd
  rcases (delivered_iff h t).1 hd with h1 | h1
  · exact h.cinv.disjoint t h1 ht
  · by_cases hs : c.subAll = true
    · exact (h.cinv.all_sub hs).2 t ht
    · exact h.cinv.not_all (by simpa using hs) h1

theorem agreeOk_of_agree (U : List Int) {c : CState} {m : MState} (h : Agree c m) :
    agreeOk U (viewOf U c m) = true := by
  simp only [agreeOk, viewOf, List.all_eq_true, Bool.or_eq_true, beq_iff_eq]
  intro t ht
  right
  have hd := delivered_iff h t
  by_cases hdel : delivered m t = true
  · have : (List.filter (delivered m) U).contains t = true := by simp [ht, hdel]
    rw [this]
    rcases hd.1 hdel with h1 | h1 <;> simp [h1]
  · have : (List.filter (delivered m) U).contains t = false := by simp [hdel]
    rw [this]
    have hn : ¬ (t ∈ c.subscribed ∨ ALL ∈ c.subscribed) := fun hh => hdel (hd.2 hh)
    simp only [not_or] at hn
    simp [hn.1, hn.2]

theorem pausedOk_of_agree (U : List Int) {c : CState} {m : MState} (h : Agree c m) :
    pausedOk (viewOf U c m) = true := by
  simp only [pausedOk, viewOf, List.all_eq_true, Bool.not_eq_true', List.contains_eq_mem, decide_eq_false_iff_not,
    List.mem_filter, not_and, Bool.not_eq_true]
  intro t ht _
  exact paused_not_delivered h t ht

theorem sameView_refl (v : View) : sameView v v = true := by
  simp [sameView, seteq_refl]

/-- the fifth phase clause needs: subscribed to all ⇒ the first phase of an individual change is a pure refusal -/
theorem sub_contains_all {c : CState} (h : CInv c) (hc : c.subscribed.contains ALL = true) : c.subAll = true := by
  by_cases hs : c.subAll = true
  · exact hs
  · exact absurd (by simpa using hc) (h.not_all (by simpa using hs))

theorem sysAfter_cons (s : Sys) (x : Phase × MState) (r : List (Phase × MState)) :
    sysAfter s (x :: r) = sysAfter ⟨x.1.st, x.2⟩ r := by
  cases r with
  | nil => rfl
  | cons y r' => simp only [sysAfter]; exact sysAfter_indep _ _ (y :: r') (by simp)

theorem opFail_chain (U : List Int) (pre : View) (op : Op) :
    ∀ (xs : List (Phase × MState)) (c : CState) (m : MState) (first : Bool), ChainOk c m xs →
      (∀ x r, xs = x :: r → allRefusesClause pre op first ⟨some x.1.status, x.1.frames.length, viewOf U x.1.st x.2⟩ = true) →
      ctxRestores pre op (viewOf U (sysAfter ⟨c, m⟩ xs).c (sysAfter ⟨c, m⟩ xs).m) = true →
      opFail U pre op (viewOf U c m) first (obsOfPhases U xs) = none
  | [], c, m, first, _, _, hctx => by
    simp only [sysAfter] at hctx
    simp [obsOfPhases, opFail, hctx]
  | x :: r, c, m, first, hch, hfirst, hctx => by
    cases hch with
    | cons hx hr =>
      have h5 := hfirst x r rfl
      have hrefused : ((some x.1.status != some Status.refused) ||
          (x.1.frames.length == 0 && sameView (viewOf U c m) (viewOf U x.1.st x.2))) = true := by
        rcases status_cases x.1.status with hs | hs
        · simp [hs]
        · obtain ⟨h1, h2, h3, _⟩ := hx.refused hs
          simp [h1, h2, h3, sameView_refl]
      have hrefall : ((some x.1.status != some Status.refused) || (viewOf U c m).sub.contains ALL) = true := by
        rcases status_cases x.1.status with hs | hs
        · simp [hs]
        · obtain ⟨_, _, _, h4⟩ := hx.refused hs
          simp [viewOf, h4]
      have hclauses : firstFail (phaseClauses U pre (viewOf U c m) op first
          ⟨some x.1.status, x.1.frames.length, viewOf U x.1.st x.2⟩) = none := by
        simp only [firstFail, phaseClauses, agreeOk_of_agree U hx.agree, pausedOk_of_agree U hx.agree, h5, hrefused,
          hrefall]
        simp
      rw [sysAfter_cons] at hctx
      have ih := opFail_chain U pre op r x.1.st x.2 false hr
        (by intro y r' _; simp [allRefusesClause]) hctx
      simp only [obsOfPhases, opFail, hclauses]
      exact ih


/-! ### context managers restore the entry state -/

theorem sysAfter_c (s : Sys) : ∀ (m : MState) (ps : List Phase), (sysAfter s (sysPhases m ps)).c = lastState s.c ps
  | _, [] => rfl
  | _, [_] => rfl
  | m, p :: q :: r => by
    have := sysAfter_c s (mgrRun m p.frames) (q :: r)
    simpa [sysPhases, sysAfter, lastState] using this

theorem mem_filter_not {l S : List Int} {t : Int} :
    t ∈ l.filter (fun x => !S.contains x) ↔ t ∈ l ∧ t ∉ S := by simp

theorem mem_filter_in {l S : List Int} {t : Int} :
    t ∈ l.filter (fun x => S.contains x) ↔ t ∈ l ∧ t ∈ S := by simp

/-- `with subscription_context(l): pass`, `l` individual types: subscribed and paused sets are what they were -/
theorem subCtx_restores {c : CState} (_h : CInv c) (l : List Int) (hl : ALL ∉ l) :
    (∀ t, t ∈ (lastState c (runOp c (.subCtx l))).subscribed ↔ t ∈ c.subscribed) ∧
    (∀ t, t ∈ (lastState c (runOp c (.subCtx l))).paused ↔ t ∈ c.paused) := by
  simp only [runOp]
  have hk : ALL ∉ l.filter (fun t => !c.subscribed.contains t) := fun hh => hl (mem_filter_not.1 hh).1
  have hkS : ∀ t, t ∈ l.filter (fun t => !c.subscribed.contains t) → t ∉ c.subscribed :=
    fun t ht => (mem_filter_not.1 ht).2
  generalize l.filter (fun t => !c.subscribed.contains t) = kept at hk hkS
  have hW : ∀ t, t ∈ kept.filter (fun t => c.paused.contains t) ↔ t ∈ kept ∧ t ∈ c.paused :=
    fun t => mem_filter_in
  generalize kept.filter (fun t => c.paused.contains t) = W at hW
  by_cases hs : c.subAll = true
  · simp [control_refused c .subscribe kept hs hk, lastState]
  · have hs' : c.subAll = false := by simpa using hs
    have e1 := control_ind c .subscribe kept hs' hk
    have hs1 : (indState c .subscribe (dedup kept)).subAll = false := by simp [indState, hs']
    have e2 := control_ind (indState c .subscribe (dedup kept)) .unsubscribe kept hs1 hk
    have hne : (Status.ok == Status.refused) = false := by decide
    simp only [e1, e2, hne, Bool.false_eq_true, if_false, Bool.false_or]
    by_cases hWe : W.isEmpty = true
    · have hWnil : W = [] := by simpa using hWe
      simp only [hWe, if_true, lastState, indState]
      refine ⟨fun t => ?_, fun t => ?_⟩
      · simp only [mem_diff, mem_union, mem_dedup]
        constructor
        · rintro ⟨h1 | h1, h2⟩
          · exact h1
          · exact absurd h1 h2
        · intro h1; exact ⟨.inl h1, fun h2 => hkS t h2 h1⟩
      · simp only [mem_diff, mem_dedup]
        constructor
        · rintro ⟨⟨h1, _⟩, _⟩; exact h1
        · intro h1
          have : t ∉ kept := fun h2 => by
            have := (hW t).2 ⟨h2, h1⟩; simp [hWnil] at this
          exact ⟨⟨h1, this⟩, this⟩
    · have hWA : ALL ∉ W := fun hh => hk ((hW ALL).1 hh).1
      have hs2 : (indState (indState c .subscribe (dedup kept)) .unsubscribe (dedup kept)).subAll = false := by
        simp [indState, hs']
      have e3 := control_ind _ .pause W hs2 hWA
      have hWe' : W.isEmpty = false := by simpa using hWe
      simp only [hWe', Bool.false_eq_true, if_false, e3, lastState]
      simp only [indState]
      refine ⟨fun t => ?_, fun t => ?_⟩
      · simp only [mem_diff, mem_union, mem_dedup]
        constructor
        · rintro ⟨⟨h1 | h1, h2⟩, _⟩
          · exact h1
          · exact absurd h1 h2
        · intro h1
          have hnk : t ∉ kept := fun h2 => hkS t h2 h1
          exact ⟨⟨.inl h1, hnk⟩, fun h2 => hnk ((hW t).1 h2).1⟩
      · simp only [mem_diff, mem_union, mem_dedup]
        constructor
        · rintro (⟨⟨h1, _⟩, _⟩ | h1)
          · exact h1
          · exact ((hW t).1 h1).2
        · intro h1
          by_cases h2 : t ∈ kept
          · exact .inr ((hW t).2 ⟨h2, h1⟩)
          · exact .inl ⟨⟨h1, h2⟩, h2⟩

/-- `with paused_subscription_context(l): pass`, `l` individual types -/
theorem pauseCtx_restores {c : CState} (h : CInv c) (l : List Int) (hl : ALL ∉ l) :
    (∀ t, t ∈ (lastState c (runOp c (.pauseCtx l))).subscribed ↔ t ∈ c.subscribed) ∧
    (∀ t, t ∈ (lastState c (runOp c (.pauseCtx l))).paused ↔ t ∈ c.paused) := by
  simp only [runOp]
  have hk : ALL ∉ l.filter (fun t => c.subscribed.contains t) := fun hh => hl (mem_filter_in.1 hh).1
  have hkS : ∀ t, t ∈ l.filter (fun t => c.subscribed.contains t) → t ∈ c.subscribed :=
    fun t ht => (mem_filter_in.1 ht).2
  generalize l.filter (fun t => c.subscribed.contains t) = kept at hk hkS
  by_cases hs : c.subAll = true
  · simp [control_refused c .pause kept hs hk, lastState]
  · have hs' : c.subAll = false := by simpa using hs
    have e1 := control_ind c .pause kept hs' hk
    have hs1 : (indState c .pause (dedup kept)).subAll = false := by simp [indState, hs']
    have e2 := control_ind (indState c .pause (dedup kept)) .resume kept hs1 hk
    have hne : (Status.ok == Status.refused) = false := by decide
    simp only [e1, e2, hne, Bool.false_eq_true, if_false, lastState]
    simp only [indState]
    refine ⟨fun t => ?_, fun t => ?_⟩
    · simp only [mem_diff, mem_union, mem_dedup]
      constructor
      · rintro (⟨h1, _⟩ | h1)
        · exact h1
        · exact hkS t h1
      · intro h1
        by_cases h2 : t ∈ kept
        · exact .inr h2
        · exact .inl ⟨h1, h2⟩
    · simp only [mem_diff, mem_union, mem_dedup]
      constructor
      · rintro ⟨h1 | h1, h2⟩
        · exact h1
        · exact absurd h1 h2
      · intro h1
        exact ⟨.inl h1, fun h2 => h.disjoint t (hkS t h2) h1⟩

end Pyrtma.ClientSub
