import Pyrtma.Proofs.DataLogFine
/-!
# Preservation of the fine-granularity invariant by every step of the recording thread
-/
set_option linter.unusedSimpArgs false
set_option linter.unusedVariables false

namespace Pyrtma.DataLog.Fine

/-- the part of the state the writer's side of the invariant reads -/
structure SameW (s s' : State) : Prop where
  wpc : s'.wpc = s.wpc
  wf : s'.wf = s.wf
  wl : s'.wl = s.wl
  wfd : s'.wfd = s.wfd
  wcall : s'.wcall = s.wcall

/-- what a step of the recorder in a safe place may do to a data set: append to the list `rbuf` refers to,
arm the sub-division -/
structure DsSame (d d' : Ds) : Prop where
  wb : d'.wb = d.wb
  rb : d'.rb = d.rb
  fd : d'.fd = d.fd
  fmt : d'.fmt = d.fmt
  sub : d'.sub = d.sub
  files : d'.files = d.files
  lwb : d'.lists d.wb = d.lists d.wb

theorem DsSame.refl (d : Ds) : DsSame d d := ⟨rfl, rfl, rfl, rfl, rfl, rfl, rfl⟩

theorem DsSame.written {d d' : Ds} (h : DsSame d d') : d'.written = d.written := by
  rw [written_eq, written_eq, h.sub, h.files]

theorem WLoc_congr {c : Cfg} {s s' : State} (hW : SameW s s') (hds : ∀ i, DsSame (s.ds i) (s'.ds i)) :
    WLoc c s → WLoc c s' := by
  intro h
  unfold WLoc at h ⊢
  rw [hW.wpc, hW.wf, hW.wl, hW.wfd, hW.wcall]
  cases hw : s.wpc <;> simp_all only [(hds _).sub, (hds _).wb] <;> trivial

theorem FileOk_congr {d d' : Ds} (h : DsSame d d') (ph : SubPh) (b : Bool) : FileOk d ph b → FileOk d' ph b := by
  unfold FileOk
  rw [h.fd, h.fmt, h.sub, h.files]
  exact id

/-- a step of the recorder from a safe place to a safe place that leaves the events alone -/
theorem Inv.of_R_safe {c : Cfg} {all : List RecOp} {s s' : State} (h : Inv c all s)
    (hcl : rcls s.rpc = .safe) (hcl' : rcls s'.rpc = .safe)
    (hwt : waiting s'.rpc = true → waiting s.rpc = true ∨ s.td = true)
    (htd : s'.td = s.td) (hfin : s'.fin = s.fin) (hW : SameW s s') (hds : ∀ i, DsSame (s.ds i) (s'.ds i))
    (hridx : ∀ j, rIdx s'.rpc = some j → j < c.n)
    (hrloc : RLoc c s') (hops : inStop s'.rpc = true → s'.ops = [])
    (hdata : s.wpc ≠ .dead → ∀ i, i < c.n → dataEq c all s i → dataEq c all s' i) : Inv c all s' := by
  refine ⟨?_, hridx, ?_, WLoc_congr hW hds h.wloc, hrloc, ?_, ?_, ?_, ?_, hops, ?_⟩
  · have hc := h.compat
    unfold Fine.compat at hc ⊢
    rw [htd, hfin, hW.wpc, hcl']
    rw [hcl] at hc
    cases hw : wcls s.wpc <;> simp_all [compatC, RC.safe?, RC.trig?]
    cases htd' : s.td <;> simp_all
    cases hwt' : waiting s'.rpc <;> simp_all
  · rw [hW.wpc]; exact h.widx
  · intro i hi; rw [(hds i).wb, (hds i).rb]; exact h.rbwb i hi
  · intro i hi hm
    rw [(hds i).wb, (hds i).lwb]
    apply h.empty i hi
    unfold mustBeEmpty at hm ⊢
    rw [htd, hW.wpc, hcl'] at hm
    rw [hcl]; exact hm
  · intro i hi hst; rw [hcl'] at hst; simp [stagedByStop] at hst
  · intro i hi
    have := h.files i hi
    unfold FileInv at this ⊢
    rw [hW.wpc, hcl', rFin_safe _ _ hcl']
    rw [hcl, rFin_safe _ _ hcl] at this
    intro h1 h2
    exact FileOk_congr (hds i) _ _ (this h1 h2)
  · intro h1 h2 h3 i hi
    rw [hW.wpc] at h1
    have hr : s.rpc ≠ .raisedIO ∧ s.rpc ≠ .raisedT := by
      constructor <;> intro hh <;> simp [hh, rcls] at hcl
    exact hdata h1 i hi (h.data h1 hr.1 hr.2 i hi)


/-! ### `update`'s loop: where the recorder goes next -/

structure ScanSpec (c : Cfg) (cur : Option Msg) (i : Nat) (b : Bool) (p : RPc) : Prop where
  safe : rcls p = .safe
  nowait : waiting p = false
  nostop : inStop p = false
  idx : ∀ j, rIdx p = some j → j < c.n
  due : ∀ j, p = .uAppend j → appendDue c cur j = true
  ahead : ∀ k, k < c.n → notYet p k = true → (i < k ∨ (k = i ∧ b = false))
  skipped : ∀ k, k < c.n → (i < k ∨ (k = i ∧ b = false)) → notYet p k = false → appendDue c cur k = false

theorem scan_end (c : Cfg) (cur : Option Msg) (i : Nat) (b : Bool) (p : RPc) (hi : c.n ≤ i)
    (hp : p = .uIsSet ∨ p = .idle) : ScanSpec c cur i b p := by
  rcases hp with rfl | rfl <;>
    exact ⟨rfl, rfl, rfl, by simp [rIdx], by simp, by simp [notYet], by intro k hk h; omega⟩

theorem scan_spec (c : Cfg) (s : State) : ∀ fuel i b, c.n ≤ fuel + i → ScanSpec c s.cur i b (scan c s fuel i b) := by
  intro fuel
  induction fuel with
  | zero =>
    intro i b h
    unfold scan
    apply scan_end c s.cur i b _ (by omega)
    split <;> simp
  | succ f ih =>
    intro i b h
    unfold scan
    split
    · rename_i hn
      apply scan_end c s.cur i b _ hn
      split <;> simp
    · rename_i hn
      split
      · rename_i h1
        simp only [Bool.and_eq_true, Bool.not_eq_true'] at h1
        refine ⟨rfl, rfl, rfl, ?_, ?_, ?_, ?_⟩
        · intro j hj; simp [rIdx] at hj; omega
        · intro j hj; cases hj; exact h1.2
        · intro k _ hk; simp [notYet] at hk
          rcases Nat.lt_or_ge i k with h | h
          · exact Or.inl h
          · exact Or.inr ⟨by omega, h1.1⟩
        · intro k _ hr hk; simp [notYet] at hk
          rcases hr with hr | hr <;> omega
      · rename_i h1
        split
        · refine ⟨rfl, rfl, rfl, ?_, ?_, ?_, ?_⟩
          · intro j hj; simp [rIdx] at hj; omega
          · intro j hj; cases hj
          · intro k _ hk; simp [notYet] at hk; exact Or.inl hk
          · intro k _ hr hk
            simp [notYet] at hk
            rcases hr with hr | ⟨rfl, rfl⟩
            · omega
            · simpa using h1
        · have := ih (i + 1) false (by omega)
          refine ⟨this.safe, this.nowait, this.nostop, this.idx, this.due, ?_, ?_⟩
          · intro k hk hny
            rcases this.ahead k hk hny with h | ⟨h, _⟩ <;> exact Or.inl (by omega)
          · intro k hk hr hny
            rcases hr with hr | ⟨rfl, rfl⟩
            · refine this.skipped k hk ?_ hny
              rcases Nat.lt_or_ge (i + 1) k with h | h
              · exact Or.inl h
              · exact Or.inr ⟨by omega, rfl⟩
            · simpa using h1

theorem scanFrom_spec (c : Cfg) (s : State) (i : Nat) (b : Bool) : ScanSpec c s.cur i b (scanFrom c s i b) := by
  unfold scanFrom
  exact scan_spec c s _ i b (by omega)

theorem taken_of_not_due (c : Cfg) (cur : Option Msg) (k : Nat) (h : appendDue c cur k = false) :
    taken (c.sel k) cur = [] := by
  cases cur <;> simp_all [appendDue, taken]


/-! ### steps inside the safe class -/

theorem dataEq_R_safe {c : Cfg} {all : List RecOp} {s s' : State} {i : Nat}
    (hcl : rcls s.rpc = .safe) (hcl' : rcls s'.rpc = .safe) (hW : SameW s s') (hds : s'.ds i = s.ds i)
    (hfut : curPart c s' i ++ accepted (c.sel i) s'.paused s'.ops =
      curPart c s i ++ accepted (c.sel i) s.paused s.ops) : dataEq c all s i → dataEq c all s' i := by
  intro hd
  unfold dataEq at hd ⊢
  rw [pend_safe s' i hcl', hW.wpc, hW.wcall, hds, List.append_assoc, hfut, ← List.append_assoc]
  rw [pend_safe s i hcl] at hd
  exact hd

theorem dataEq_R_safe' {c : Cfg} {all : List RecOp} {s s' : State} {i : Nat}
    (hcl : rcls s.rpc = .safe) (hcl' : rcls s'.rpc = .safe) (hW : SameW s s') (hds : DsSame (s.ds i) (s'.ds i))
    (hfut : (s'.ds i).lists (s'.ds i).rb ++ curPart c s' i ++ accepted (c.sel i) s'.paused s'.ops =
      (s.ds i).lists (s.ds i).rb ++ curPart c s i ++ accepted (c.sel i) s.paused s.ops) :
    dataEq c all s i → dataEq c all s' i := by
  intro hd
  unfold dataEq at hd ⊢
  rw [pend_safe s' i hcl', hW.wpc, hW.wcall, hds.written, hds.wb, hds.lwb]
  rw [pend_safe s i hcl] at hd
  simp only [List.append_assoc] at hd hfut ⊢
  rw [hfut]; exact hd

section
variable {c : Cfg} {all : List RecOp} {s : State}

local macro "sameW" : term => `(⟨rfl, rfl, rfl, rfl, rfl⟩)

theorem stepR_idle (h : Inv c all s) (hr : s.rpc = .idle) : Inv c all (stepR c s) := by
  have hcl : rcls s.rpc = .safe := by rw [hr]; rfl
  simp only [stepR, hr]
  cases ho : s.ops with
  | nil =>
    simp only
    refine h.of_R_safe hcl rfl (by simp [waiting]) rfl rfl sameW (fun _ => DsSame.refl _) (by simp [rIdx])
      (by simp [RLoc]) (fun _ => rfl) ?_
    intro _ i _
    exact dataEq_R_safe hcl rfl sameW rfl (by simp [curPart, notYet, hr, ho])
  | cons op rest =>
    cases op with
    | pause d =>
      simp only
      refine h.of_R_safe hcl (by simp [hr, rcls]) (by simp [waiting, hr]) rfl rfl sameW (fun _ => DsSame.refl _)
        (by simp [rIdx, hr]) (by simp [RLoc, hr]) (by simp [inStop, hr]) ?_
      intro _ i _
      exact dataEq_R_safe hcl (by simp [hr, rcls]) sameW rfl (by simp [curPart, notYet, hr, ho, accepted])
    | resume d =>
      simp only
      refine h.of_R_safe hcl (by simp [hr, rcls]) (by simp [waiting, hr]) rfl rfl sameW (fun _ => DsSame.refl _)
        (by simp [rIdx, hr]) (by simp [RLoc, hr]) (by simp [inStop, hr]) ?_
      intro _ i _
      exact dataEq_R_safe hcl (by simp [hr, rcls]) sameW rfl (by simp [curPart, notYet, hr, ho, accepted])
    | update d m =>
      simp only
      split
      · rename_i hp
        refine h.of_R_safe hcl (by simp [hr, rcls]) (by simp [waiting, hr]) rfl rfl sameW (fun _ => DsSame.refl _)
          (by simp [rIdx, hr]) (by simp [RLoc, hr]) (by simp [inStop, hr]) ?_
        intro _ i _
        exact dataEq_R_safe hcl (by simp [hr, rcls]) sameW rfl (by simp [curPart, notYet, hr, ho, accepted, hp])
      · rename_i hp
        refine h.of_R_safe hcl rfl (by simp [waiting]) rfl rfl sameW (fun _ => DsSame.refl _)
          (by simp [rIdx]) (by simp [RLoc]) (by simp [inStop]) ?_
        intro _ i _
        refine dataEq_R_safe hcl rfl sameW rfl ?_
        have hp' : s.paused = false := by simpa using hp
        simp [curPart, notYet, hr, ho, accepted_update, hp']
    | tick d =>
      simp only
      split
      · rename_i hp
        refine h.of_R_safe hcl (by simp [hr, rcls]) (by simp [waiting, hr]) rfl rfl sameW (fun _ => DsSame.refl _)
          (by simp [rIdx, hr]) (by simp [RLoc, hr]) (by simp [inStop, hr]) ?_
        intro _ i _
        exact dataEq_R_safe hcl (by simp [hr, rcls]) sameW rfl (by simp [curPart, notYet, hr, ho, accepted, hp])
      · rename_i hp
        refine h.of_R_safe hcl rfl (by simp [waiting]) rfl rfl sameW (fun _ => DsSame.refl _)
          (by simp [rIdx]) (by simp [RLoc]) (by simp [inStop]) ?_
        intro _ i _
        refine dataEq_R_safe hcl rfl sameW rfl ?_
        simp [curPart, notYet, hr, ho, accepted, taken]

/-- an exception ends the session: nothing is claimed any more -/
theorem Inv.of_raised {s' : State} (h : Inv c all s)
    (hr' : s'.rpc = .raisedT ∨ (s'.rpc = .raisedIO ∧ s'.ops = [])) (hW : SameW s s')
    (hds : ∀ i, DsSame (s.ds i) (s'.ds i)) : Inv c all s' := by
  have hcl' : rcls s'.rpc = .raised := by rcases hr' with e | ⟨e, _⟩ <;> rw [e] <;> rfl
  refine ⟨?_, ?_, ?_, WLoc_congr hW hds h.wloc, ?_, ?_, ?_, ?_, ?_, ?_, ?_⟩
  · unfold Fine.compat; rw [hcl']; simp [compatC]
  · intro j hj; rcases hr' with e | ⟨e, _⟩ <;> rw [e] at hj <;> simp [rIdx] at hj
  · rw [hW.wpc]; exact h.widx
  · rcases hr' with e | ⟨e, _⟩ <;> simp [RLoc, e]
  · intro i hi; rw [(hds i).wb, (hds i).rb]; exact h.rbwb i hi
  · intro i hi hm; unfold mustBeEmpty at hm; rw [hcl'] at hm; simp [mustBeEmptyC] at hm
  · intro i hi hst; rw [hcl'] at hst; simp [stagedByStop] at hst
  · intro i hi hcs; rw [hcl'] at hcs; simp [closedByStop] at hcs
  · intro _; rcases hr' with e | ⟨_, e⟩
    · rename_i hin; rw [e] at hin; simp [inStop] at hin
    · exact e
  · intro _ h2 h3; rcases hr' with e | ⟨e, _⟩
    · exact absurd e h3
    · exact absurd e h2

theorem curPart_scan (s1 : State) (i0 : Nat) (b : Bool) (i : Nat) (hi : i < c.n) (old : Bool)
    (hold : old = true → (i0 < i ∨ (i = i0 ∧ b = false)))
    (hnew : old = false → ¬(i0 < i ∨ (i = i0 ∧ b = false))) :
    (if notYet (scanFrom c s1 i0 b) i then taken (c.sel i) s1.cur else []) =
      if old then taken (c.sel i) s1.cur else [] := by
  have sp := scanFrom_spec c s1 i0 b
  cases hny : notYet (scanFrom c s1 i0 b) i <;> cases old <;> simp
  · exact taken_of_not_due c s1.cur i (sp.skipped i hi (hold rfl) hny)
  · exact absurd (sp.ahead i hi hny) (hnew rfl)

theorem RLoc_of_scan {s' : State} {i0 : Nat} {b : Bool} (sp : ScanSpec c s'.cur i0 b s'.rpc) : RLoc c s' := by
  unfold RLoc
  have hs := sp.safe
  cases hp : s'.rpc <;> simp_all [rcls]
  exact sp.due _ rfl

theorem stepR_uAlive (h : Inv c all s) (hr : s.rpc = .uAlive) : Inv c all (stepR c s) := by
  have hcl : rcls s.rpc = .safe := by rw [hr]; rfl
  simp only [stepR, hr]
  split
  · exact h.of_raised (Or.inl rfl) sameW (fun _ => DsSame.refl _)
  · have sp := scanFrom_spec c { s with rpc := .uAlive, el := s.elapsed, wr := false } 0 false
    refine h.of_R_safe hcl sp.safe (by simp [sp.nowait]) rfl rfl sameW (fun _ => DsSame.refl _) sp.idx ?_
      (by simp [sp.nostop]) ?_
    · exact RLoc_of_scan sp
    · intro _ i hi
      refine dataEq_R_safe hcl sp.safe sameW rfl ?_
      simp only [curPart, hr]
      rw [curPart_scan { s with rpc := .uAlive, el := s.elapsed, wr := false } 0 false i hi true
        (by intro _; rcases Nat.eq_zero_or_pos i with h0 | h0
            · exact Or.inr ⟨h0, rfl⟩
            · exact Or.inl h0) (by simp)]
      simp [notYet]

/-- a step of the recorder that only moves its program counter and touches the events, while the writer is
outside every `ds[k].write()` -/
theorem Inv.of_R_flags {s' : State} (h : Inv c all s) (hW : SameW s s') (hds : s'.ds = s.ds)
    (hops : s'.ops = s.ops) (hpaused : s'.paused = s.paused)
    (hp : plainW s.wpc) (hwd : s.wpc ≠ .dead) (hc : Fine.compat s' = true)
    (hridx : ∀ j, rIdx s'.rpc = some j → j < c.n) (hrloc : RLoc c s')
    (he : ∀ i, i < c.n → mustBeEmpty s' i = true → mustBeEmpty s i = true)
    (hst : ∀ i, i < c.n → stagedByStop (rcls s'.rpc) i = true → stagedByStop (rcls s.rpc) i = true)
    (hcb : ∀ i, i < c.n → closedByStop (rcls s'.rpc) i = false →
      closedByStop (rcls s.rpc) i = false ∧ rFin s'.rpc i = rFin s.rpc i)
    (hin : inStop s'.rpc = true → inStop s.rpc = true)
    (hno : s.rpc ≠ .raisedIO ∧ s.rpc ≠ .raisedT)
    (hpend : ∀ i, i < c.n → pend s' i = pend s i) (hcp : ∀ i, curPart c s' i = curPart c s i) :
    Inv c all s' := by
  have hdss : ∀ i, DsSame (s.ds i) (s'.ds i) := by intro i; rw [hds]; exact DsSame.refl _
  refine ⟨hc, hridx, ?_, WLoc_congr hW hdss h.wloc, hrloc, ?_, ?_, ?_, ?_, ?_, ?_⟩
  · rw [hW.wpc]; exact h.widx
  · rw [hds]; exact h.rbwb
  · intro i hi hm; rw [hds]; exact h.empty i hi (he i hi hm)
  · intro i hi hs; rw [hds]; exact h.rbufNil i hi (hst i hi hs)
  · intro i hi
    have := h.files i hi
    unfold FileInv at this ⊢
    intro h1 _
    obtain ⟨h2, h3⟩ := hcb i hi h1
    rw [hds, hW.wpc, h3]
    exact this h2 hwd
  · intro hi; rw [hops]; exact h.opsNil (hin hi)
  · intro _ _ _ i hi
    have hd := h.data hwd hno.1 hno.2 i hi
    unfold dataEq at hd ⊢
    rw [hpend i hi, hcp i, hds, hops, hpaused]; exact hd

theorem pend_plain_nofin (s : State) (i : Nat) (hp : plainW s.wpc)
    (hr : match s.rpc with
      | .sStop _ | .sStage _ | .sFmtGet _ | .sWbufGet _ | .sCall _ | .sFdGet _ | .sFdGet2 _ | .sClose _ | .done => False
      | _ => True) : pend s i = (s.ds i).lists (s.ds i).wb := by
  unfold pend
  cases hrp : s.rpc <;> simp_all [(hp i _ _).2]

/-- in the trigger and stop classes the writer is outside every `ds[k].write()` -/
theorem plain_of_unsafe (h : Inv c all s) (hu : (rcls s.rpc).safe? = false) (hno : rcls s.rpc ≠ .raised)
    (hnd : rcls s.rpc ≠ .done) :
    (s.wpc = .wait ∧ s.td = false) ∨ (s.wpc = .clrTD ∧ (rcls s.rpc).trig? = false) := by
  have hc := h.compat
  unfold Fine.compat at hc
  cases hw : s.wpc <;> cases hr : rcls s.rpc <;> simp_all [compatC, wcls, RC.safe?, RC.trig?]

theorem stepR_uAppend (h : Inv c all s) (j : Nat) (hr : s.rpc = .uAppend j) : Inv c all (stepR c s) := by
  have hcl : rcls s.rpc = .safe := by rw [hr]; rfl
  have hj : j < c.n := h.ridx j (by simp [hr, rIdx])
  have hdue := h.rloc
  simp only [RLoc, hr] at hdue
  have hrw := h.rbwb j hj
  simp only [stepR, hr]
  cases hcur : s.cur with
  | none => simp [appendDue, hcur] at hdue
  | some m =>
    simp only
    have hsel : (c.sel j).selects m.ty = true := by simpa [appendDue, hcur] using hdue
    have sp := scanFrom_spec c { s with rpc := .uAppend j, cur := some m, ds := setDs s.ds j { s.ds j with lists := upd (s.ds j).lists (s.ds j).rb ((s.ds j).lists (s.ds j).rb ++ [m]) } } j true
    have hds : ∀ i, DsSame (s.ds i) (setDs s.ds j
        { s.ds j with lists := upd (s.ds j).lists (s.ds j).rb ((s.ds j).lists (s.ds j).rb ++ [m]) } i) := by
      intro i
      by_cases hij : i = j
      · subst hij
        rw [setDs_same]
        exact ⟨rfl, rfl, rfl, rfl, rfl, rfl, upd_other _ _ (by omega)⟩
      · rw [setDs_other _ _ hij]; exact DsSame.refl _
    refine h.of_R_safe hcl sp.safe (by simp [sp.nowait]) rfl rfl sameW hds sp.idx (RLoc_of_scan sp)
      (by simp [sp.nostop]) ?_
    intro _ i hi
    refine dataEq_R_safe' hcl sp.safe sameW (hds i) ?_
    simp only [curPart, hr]
    rw [curPart_scan _ j true i hi (decide (j < i)) (by intro h; exact Or.inl (by simpa using h))
      (by intro h; simp at h; intro h'; rcases h' with h' | ⟨_, h'⟩ <;> simp_all <;> omega)]
    by_cases hij : i = j
    · subst hij
      simp [notYet, hcur, taken, hsel]
    · simp only [setDs_other _ _ hij, notYet]
      by_cases hlt : j < i
      · simp [hlt, Nat.le_of_lt hlt, hcur]
      · have : ¬ j ≤ i := by omega
        simp [hlt, this]

theorem stepR_uFlag (h : Inv c all s) (j : Nat) (hr : s.rpc = .uFlag j) : Inv c all (stepR c s) := by
  have hcl : rcls s.rpc = .safe := by rw [hr]; rfl
  have hj : j < c.n := h.ridx j (by simp [hr, rIdx])
  simp only [stepR, hr]
  have sp := scanFrom_spec c { s with rpc := .uFlag j, wr := true, ds := setDs s.ds j { s.ds j with nextSub := some (s.el + c.interval j), subFlag := true } } (j + 1) false
  have hds : ∀ i, DsSame (s.ds i) (setDs s.ds j
      { s.ds j with nextSub := some (s.el + c.interval j), subFlag := true } i) := by
    intro i
    by_cases hij : i = j
    · subst hij; rw [setDs_same]; exact ⟨rfl, rfl, rfl, rfl, rfl, rfl, rfl⟩
    · rw [setDs_other _ _ hij]; exact DsSame.refl _
  refine h.of_R_safe hcl sp.safe (by simp [sp.nowait]) rfl rfl sameW hds sp.idx (RLoc_of_scan sp)
    (by simp [sp.nostop]) ?_
  intro _ i hi
  refine dataEq_R_safe' hcl sp.safe sameW (hds i) ?_
  simp only [curPart, hr]
  rw [curPart_scan _ (j + 1) false i hi (decide (j < i))
    (by intro h; simp at h; rcases Nat.lt_or_ge (j + 1) i with h' | h'
        · exact Or.inl h'
        · exact Or.inr ⟨by omega, rfl⟩)
    (by intro h; simp at h; intro h'; rcases h' with h' | ⟨h', _⟩ <;> omega)]
  by_cases hij : i = j
  · subst hij; simp [notYet]
  · simp [setDs_other _ _ hij, notYet]

theorem wait_of_safe_notd (h : Inv c all s) (hcl : rcls s.rpc = .safe) (htd : s.td = false) : s.wpc = .wait := by
  have hc := h.compat
  unfold Fine.compat at hc
  rw [hcl] at hc
  cases hw : s.wpc <;> simp_all [compatC, wcls, RC.safe?]

theorem firstUStage_cases (c : Cfg) :
    (firstUStage c = .uStage 0 ∧ 0 < c.n) ∨ (firstUStage c = .uClrFin ∧ c.n = 0) := by
  unfold firstUStage; split
  · exact Or.inl ⟨rfl, by assumption⟩
  · exact Or.inr ⟨rfl, by omega⟩

theorem stepR_uIsSet (h : Inv c all s) (hr : s.rpc = .uIsSet) : Inv c all (stepR c s) := by
  have hcl : rcls s.rpc = .safe := by rw [hr]; rfl
  simp only [stepR, hr]
  split
  · refine h.of_R_safe hcl rfl (by simp [waiting]) rfl rfl sameW (fun _ => DsSame.refl _) (by simp [rIdx])
      (by simp [RLoc]) (by simp [inStop]) ?_
    intro _ i _
    exact dataEq_R_safe hcl rfl sameW rfl (by simp [curPart, notYet, hr])
  · rename_i htd
    have htd : s.td = false := by simpa using htd
    have hw := wait_of_safe_notd h hcl htd
    have hc := h.compat
    unfold Fine.compat at hc
    rw [hw, hcl, hr] at hc
    refine h.of_R_flags sameW rfl rfl rfl (by rw [hw]; exact plainW_wait) (by simp [hw]) ?_ ?_ ?_ ?_ ?_ ?_ ?_
      (by simp [hr]) ?_ ?_
    · unfold Fine.compat
      rcases firstUStage_cases c with ⟨e, _⟩ | ⟨e, _⟩ <;> simp_all [compatC, wcls, rcls, waiting, RC.safe?]
    · intro j hj; rcases firstUStage_cases c with ⟨e, _⟩ | ⟨e, _⟩ <;> simp_all [rIdx]
    · rcases firstUStage_cases c with ⟨e, _⟩ | ⟨e, _⟩ <;> simp [RLoc, e]
    · intro i hi _; unfold mustBeEmpty; rw [hcl, hw]; simp [mustBeEmptyC, wcls, htd]
    · intro i hi hs; rcases firstUStage_cases c with ⟨e, _⟩ | ⟨e, _⟩ <;> simp_all [stagedByStop, rcls]
    · intro i hi _
      rcases firstUStage_cases c with ⟨e, _⟩ | ⟨e, _⟩ <;> simp_all [closedByStop, rcls, rFin]
    · intro hi; rcases firstUStage_cases c with ⟨e, _⟩ | ⟨e, _⟩ <;> simp_all [inStop]
    · intro i hi
      rw [pend_plain_nofin _ i (by simp only; rw [hw]; exact plainW_wait)
        (by rcases firstUStage_cases c with ⟨e, _⟩ | ⟨e, _⟩ <;> simp [e]),
        pend_plain_nofin s i (by rw [hw]; exact plainW_wait) (by simp [hr])]
    · intro i; rcases firstUStage_cases c with ⟨e, _⟩ | ⟨e, _⟩ <;> simp [curPart, notYet, e, hr]

theorem stepR_uClrFin (h : Inv c all s) (hr : s.rpc = .uClrFin) : Inv c all (stepR c s) := by
  have hpl := plain_of_unsafe h (by simp [hr, rcls, RC.safe?]) (by simp [hr, rcls]) (by simp [hr, rcls])
  have hw : s.wpc = .wait ∧ s.td = false := by
    rcases hpl with hpl | hpl
    · exact hpl
    · simp [hr, rcls, RC.trig?] at hpl
  simp only [stepR, hr]
  refine h.of_R_flags sameW rfl rfl rfl (by rw [hw.1]; exact plainW_wait) (by simp [hw.1]) ?_ (by simp [rIdx])
    (by simp [RLoc]) ?_ ?_ ?_ ?_ (by simp [hr]) ?_ ?_
  · unfold Fine.compat; simp [compatC, wcls, rcls, waiting, hw.1, hw.2]
  · intro i hi hm; unfold mustBeEmpty at hm; simp [mustBeEmptyC, rcls] at hm
  · intro i hi hs; simp [stagedByStop, rcls] at hs
  · intro i hi _; simp [closedByStop, rcls, rFin, hr]
  · intro hi; simp [inStop] at hi
  · intro i hi
    rw [pend_plain_nofin _ i (by simp only; rw [hw.1]; exact plainW_wait) (by simp),
      pend_plain_nofin s i (by rw [hw.1]; exact plainW_wait) (by simp [hr])]
  · intro i; simp [curPart, notYet, hr]

theorem stepR_uSetTD (h : Inv c all s) (hr : s.rpc = .uSetTD) : Inv c all (stepR c s) := by
  have hpl := plain_of_unsafe h (by simp [hr, rcls, RC.safe?]) (by simp [hr, rcls]) (by simp [hr, rcls])
  have hw : s.wpc = .wait ∧ s.td = false := by
    rcases hpl with hpl | hpl
    · exact hpl
    · simp [hr, rcls, RC.trig?] at hpl
  have hc := h.compat
  unfold Fine.compat at hc
  rw [hw.1, hr] at hc
  simp only [stepR, hr]
  refine h.of_R_flags sameW rfl rfl rfl (by rw [hw.1]; exact plainW_wait) (by simp [hw.1]) ?_ (by simp [rIdx])
    (by simp [RLoc]) ?_ ?_ ?_ ?_ (by simp [hr]) ?_ ?_
  · unfold Fine.compat; simp_all [compatC, wcls, rcls, waiting, RC.safe?]
  · intro i hi hm; unfold mustBeEmpty at hm; simp [mustBeEmptyC, rcls, wcls, hw.1] at hm
  · intro i hi hs; simp [stagedByStop, rcls] at hs
  · intro i hi _; simp [closedByStop, rcls, rFin, hr]
  · intro hi; simp [inStop] at hi
  · intro i hi
    rw [pend_plain_nofin _ i (by simp only; rw [hw.1]; exact plainW_wait) (by simp),
      pend_plain_nofin s i (by rw [hw.1]; exact plainW_wait) (by simp [hr])]
  · intro i; simp [curPart, notYet, hr]

theorem stepR_sIsSet (h : Inv c all s) (hr : s.rpc = .sIsSet) : Inv c all (stepR c s) := by
  have hcl : rcls s.rpc = .safe := by rw [hr]; rfl
  have hops := h.opsNil (by simp [hr, inStop])
  simp only [stepR, hr]
  by_cases htd : s.td = true
  · rw [if_pos htd]
    refine h.of_R_safe hcl rfl (fun _ => Or.inr htd) rfl rfl sameW (fun _ => DsSame.refl _) (by simp [rIdx])
      (by simp [RLoc]) (fun _ => hops) ?_
    intro _ i _
    exact dataEq_R_safe hcl rfl sameW rfl (by simp [curPart, notYet, hr])
  · rw [if_neg htd]
    have htd : s.td = false := by simpa using htd
    have hw := wait_of_safe_notd h hcl htd
    refine h.of_R_flags sameW rfl rfl rfl (by rw [hw]; exact plainW_wait) (by simp [hw]) ?_ (by simp [rIdx])
      (by simp [RLoc]) ?_ ?_ ?_ ?_ (by simp [hr]) ?_ ?_
    · unfold Fine.compat; simp [compatC, wcls, rcls, waiting, hw, htd]
    · intro i hi _; unfold mustBeEmpty; rw [hcl, hw]; simp [mustBeEmptyC, wcls, htd]
    · intro i hi hs; simp [stagedByStop, rcls] at hs
    · intro i hi _; simp [closedByStop, rcls, rFin, hr]
    · intro _; simp [inStop, hr]
    · intro i hi
      rw [pend_plain_nofin _ i (by simp only; rw [hw]; exact plainW_wait) (by simp),
        pend_plain_nofin s i (by rw [hw]; exact plainW_wait) (by simp [hr])]
    · intro i; simp [curPart, notYet, hr]

theorem stepR_sWait (h : Inv c all s) (hr : s.rpc = .sWait) : Inv c all (stepR c s) := by
  have hcl : rcls s.rpc = .safe := by rw [hr]; rfl
  have hops := h.opsNil (by simp [hr, inStop])
  simp only [stepR, hr]
  by_cases hfin : s.fin = true
  · rw [if_pos hfin]
    have hc := h.compat
    unfold Fine.compat at hc
    rw [hcl, hr] at hc
    have hw : (s.wpc = .wait ∧ s.td = false) ∨ (s.wpc = .clrTD) := by
      cases hw : s.wpc <;> simp_all [compatC, wcls, RC.safe?, waiting]
    have hpl : plainW s.wpc := by
      rcases hw with hw | hw
      · rw [hw.1]; exact plainW_wait
      · rw [hw]; exact plainW_clrTD
    refine h.of_R_flags sameW rfl rfl rfl hpl (by rcases hw with hw | hw <;> simp [hw]) ?_ (by simp [rIdx])
      (by simp [RLoc]) ?_ ?_ ?_ ?_ (by simp [hr]) ?_ ?_
    · unfold Fine.compat
      rcases hw with hw | hw <;> simp_all [compatC, wcls, rcls, waiting, RC.safe?, RC.trig?]
    · intro i hi hm; unfold mustBeEmpty at hm ⊢; rw [hcl]
      rcases hw with hw | hw <;> simp_all [mustBeEmptyC, wcls, rcls]
    · intro i hi hs; simp [stagedByStop, rcls] at hs
    · intro i hi _; simp [closedByStop, rcls, rFin, hr]
    · intro _; simp [inStop, hr]
    · intro i hi
      rw [pend_plain_nofin _ i (by simpa using hpl) (by simp), pend_plain_nofin s i hpl (by simp [hr])]
    · intro i; simp [curPart, notYet, hr]
  · rw [if_neg hfin]
    have hfin : s.fin = false := by simpa using hfin
    split
    · refine h.of_R_safe hcl rfl (fun _ => Or.inl (by simp [hr, waiting])) rfl rfl sameW (fun _ => DsSame.refl _)
        (by simp [rIdx]) (by simp [RLoc]) (fun _ => hops) ?_
      intro _ i _
      exact dataEq_R_safe hcl rfl sameW rfl (by simp [curPart, notYet, hr])
    · refine h.of_R_safe hcl rfl (fun _ => Or.inl (by simp [hr, waiting])) rfl rfl sameW (fun _ => DsSame.refl _)
        (by simp [rIdx]) (by simp [RLoc]) (fun _ => hops) ?_
      intro _ i _
      exact dataEq_R_safe hcl rfl sameW rfl (by simp [curPart, notYet, hr])

theorem stepR_sAlive (h : Inv c all s) (hr : s.rpc = .sAlive) : Inv c all (stepR c s) := by
  have hcl : rcls s.rpc = .safe := by rw [hr]; rfl
  have hops := h.opsNil (by simp [hr, inStop])
  simp only [stepR, hr]
  split
  · exact h.of_raised (Or.inl rfl) sameW (fun _ => DsSame.refl _)
  · refine h.of_R_safe hcl rfl (fun _ => Or.inl (by simp [hr, waiting])) rfl rfl sameW (fun _ => DsSame.refl _)
      (by simp [rIdx]) (by simp [RLoc]) (fun _ => hops) ?_
    intro _ i _
    exact dataEq_R_safe hcl rfl sameW rfl (by simp [curPart, notYet, hr])

/-- a step of the recorder that works on data set `j` while it owns the write buffers (trigger and stop
classes: the writer is parked at `wait` or at its last `clear`) -/
theorem Inv.of_R_own {s' : State} (h : Inv c all s) (j : Nat) (hW : SameW s s')
    (hother : ∀ i, i ≠ j → s'.ds i = s.ds i) (hops : s'.ops = s.ops) (hpaused : s'.paused = s.paused)
    (hpl : s.wpc = .wait ∨ s.wpc = .clrTD) (hc : Fine.compat s' = true)
    (hno : s.rpc ≠ .raisedIO ∧ s.rpc ≠ .raisedT)
    (hridx : ∀ k, rIdx s'.rpc = some k → k < c.n) (hrloc : RLoc c s')
    (hrbwb : (s'.ds j).wb < (s'.ds j).rb)
    (hempty : ∀ i, i < c.n → mustBeEmpty s' i = true →
      (i ≠ j → mustBeEmpty s i = true) ∧ (i = j → (s'.ds j).lists (s'.ds j).wb = []))
    (hrbuf : ∀ i, i < c.n → stagedByStop (rcls s'.rpc) i = true →
      (i ≠ j → stagedByStop (rcls s.rpc) i = true) ∧ (i = j → (s'.ds j).lists (s'.ds j).rb = []))
    (hfile : ∀ i, i < c.n → closedByStop (rcls s'.rpc) i = false →
      (i ≠ j → closedByStop (rcls s.rpc) i = false ∧ rFin s'.rpc i = rFin s.rpc i) ∧
      (i = j → FileOk (s'.ds j) .normal (rFin s'.rpc j)))
    (hin : inStop s'.rpc = true → inStop s.rpc = true)
    (hdo : ∀ i, i < c.n → i ≠ j → pend s' i = pend s i ∧ curPart c s' i = curPart c s i)
    (hdj : j < c.n → dataEq c all s j → dataEq c all s' j) : Inv c all s' := by
  have hwd : s.wpc ≠ .dead := by rcases hpl with e | e <;> simp [e]
  have hplain : plainW s.wpc := by
    rcases hpl with e | e <;> rw [e]
    · exact plainW_wait
    · exact plainW_clrTD
  refine ⟨hc, hridx, ?_, ?_, hrloc, ?_, ?_, ?_, ?_, ?_, ?_⟩
  · rw [hW.wpc]; exact h.widx
  · unfold WLoc; rw [hW.wpc]; rcases hpl with e | e <;> simp [e]
  · intro i hi
    by_cases hij : i = j
    · subst hij; exact hrbwb
    · rw [hother i hij]; exact h.rbwb i hi
  · intro i hi hm
    by_cases hij : i = j
    · subst hij; exact (hempty i hi hm).2 rfl
    · rw [hother i hij]; exact h.empty i hi ((hempty i hi hm).1 hij)
  · intro i hi hs
    by_cases hij : i = j
    · subst hij; exact (hrbuf i hi hs).2 rfl
    · rw [hother i hij]; exact h.rbufNil i hi ((hrbuf i hi hs).1 hij)
  · intro i hi
    unfold FileInv
    intro h1 _
    rw [hW.wpc, (hplain i default []).1]
    by_cases hij : i = j
    · subst hij; exact (hfile i hi h1).2 rfl
    · obtain ⟨h2, h3⟩ := (hfile i hi h1).1 hij
      have := h.files i hi h2 hwd
      rw [(hplain i default []).1] at this
      rw [hother i hij, h3]; exact this
  · intro hi; rw [hops]; exact h.opsNil (hin hi)
  · intro _ _ _ i hi
    have hd := h.data hwd hno.1 hno.2 i hi
    by_cases hij : i = j
    · subst hij; exact hdj hi hd
    · unfold dataEq at hd ⊢
      rw [(hdo i hi hij).1, (hdo i hi hij).2, hother i hij, hops, hpaused]; exact hd

@[simp] theorem stage_wb (d : Ds) : d.stage.wb = d.rb := rfl
@[simp] theorem stage_rb (d : Ds) : d.stage.rb = d.rb + 1 := rfl
@[simp] theorem stage_fd (d : Ds) : d.stage.fd = d.fd := rfl
@[simp] theorem stage_fmt (d : Ds) : d.stage.fmt = d.fmt := rfl
@[simp] theorem stage_sub (d : Ds) : d.stage.sub = d.sub := rfl
@[simp] theorem stage_files (d : Ds) : d.stage.files = d.files := rfl
@[simp] theorem stage_lists_rb (d : Ds) : d.stage.lists d.rb = d.lists d.rb := by
  simp [Ds.stage, upd_other _ _ (show d.rb ≠ d.rb + 1 by omega)]
@[simp] theorem stage_lists_new (d : Ds) : d.stage.lists (d.rb + 1) = [] := by simp [Ds.stage]
@[simp] theorem stage_written (d : Ds) : d.stage.written = d.written := rfl

theorem FileOk_stage (d : Ds) (b : Bool) (h : FileOk d .normal b) : FileOk d.stage .normal b := by
  simpa [FileOk] using h

theorem nextUStage_cases (c : Cfg) (j : Nat) :
    (nextUStage c j = .uStage (j + 1) ∧ j + 1 < c.n) ∨ (nextUStage c j = .uClrFin ∧ c.n ≤ j + 1) := by
  unfold nextUStage; split
  · exact Or.inl ⟨rfl, by assumption⟩
  · exact Or.inr ⟨rfl, by omega⟩

theorem fileOk_own (h : Inv c all s) (j : Nat) (hj : j < c.n) (hpl : s.wpc = .wait ∨ s.wpc = .clrTD)
    (hcb : closedByStop (rcls s.rpc) j = false) : FileOk (s.ds j) .normal (rFin s.rpc j) := by
  have := h.files j hj hcb (by rcases hpl with e | e <;> simp [e])
  rcases hpl with e | e <;> simpa [e, subPh] using this

theorem stepR_uStage (h : Inv c all s) (j : Nat) (hr : s.rpc = .uStage j) : Inv c all (stepR c s) := by
  have hj : j < c.n := h.ridx j (by simp [hr, rIdx])
  have hpl := plain_of_unsafe h (by simp [hr, rcls, RC.safe?]) (by simp [hr, rcls]) (by simp [hr, rcls])
  have hw : s.wpc = .wait ∧ s.td = false := by
    rcases hpl with hpl | hpl
    · exact hpl
    · simp [hr, rcls, RC.trig?] at hpl
  have hc := h.compat
  unfold Fine.compat at hc
  rw [hw.1, hr] at hc
  have hplw : plainW s.wpc := by rw [hw.1]; exact plainW_wait
  have hemp : (s.ds j).lists (s.ds j).wb = [] := by
    apply h.empty j hj; unfold mustBeEmpty; simp [hr, rcls, mustBeEmptyC]
  have hfo := fileOk_own h j hj (Or.inl hw.1) (by simp [hr, rcls, closedByStop])
  simp only [stepR, hr]
  refine h.of_R_own j sameW (fun i hi => by simp [setDs_other _ _ hi]) rfl rfl (Or.inl hw.1) ?_ (by simp [hr]) ?_ ?_
    (by simp) ?_ ?_ ?_ ?_ ?_ ?_
  · unfold Fine.compat
    rcases nextUStage_cases c j with ⟨e, _⟩ | ⟨e, _⟩ <;> simp_all [compatC, wcls, rcls, waiting]
  · intro k hk; rcases nextUStage_cases c j with ⟨e, _⟩ | ⟨e, _⟩ <;> simp_all [rIdx]
  · rcases nextUStage_cases c j with ⟨e, _⟩ | ⟨e, _⟩ <;> simp [RLoc, e]
  · intro i hi hm
    unfold mustBeEmpty at hm ⊢
    rcases nextUStage_cases c j with ⟨e, _⟩ | ⟨e, _⟩ <;> simp_all [mustBeEmptyC, rcls] <;> omega
  · intro i hi hs; rcases nextUStage_cases c j with ⟨e, _⟩ | ⟨e, _⟩ <;> simp_all [stagedByStop, rcls]
  · intro i hi _
    refine ⟨fun _ => ?_, fun _ => ?_⟩
    · rcases nextUStage_cases c j with ⟨e, _⟩ | ⟨e, _⟩ <;> simp_all [closedByStop, rcls, rFin]
    · have : rFin (nextUStage c j) j = false := by
        rcases nextUStage_cases c j with ⟨e, _⟩ | ⟨e, _⟩ <;> simp [e, rFin]
      simp only [setDs_same, this]
      exact FileOk_stage _ _ (by simpa [hr, rFin] using hfo)
  · intro hi; rcases nextUStage_cases c j with ⟨e, _⟩ | ⟨e, _⟩ <;> simp_all [inStop]
  · intro i hi hij
    constructor
    · rw [pend_plain_nofin _ i (by simpa using hplw)
        (by rcases nextUStage_cases c j with ⟨e, _⟩ | ⟨e, _⟩ <;> simp [e]),
        pend_plain_nofin s i hplw (by simp [hr])]
      simp [setDs_other _ _ hij]
    · rcases nextUStage_cases c j with ⟨e, _⟩ | ⟨e, _⟩ <;> simp [curPart, notYet, e, hr]
  · intro _ hd
    unfold dataEq at hd ⊢
    rw [pend_plain_nofin _ j (by simpa using hplw)
      (by rcases nextUStage_cases c j with ⟨e, _⟩ | ⟨e, _⟩ <;> simp [e])]
    rw [pend_plain_nofin s j hplw (by simp [hr]), hemp] at hd
    have hcp : ∀ p, p = nextUStage c j → notYet p j = false := by
      intro p hp; rcases nextUStage_cases c j with ⟨e, _⟩ | ⟨e, _⟩ <;> simp [hp, e, notYet]
    simp only [curPart, hr, notYet] at hd
    simp only [curPart, hcp _ rfl, setDs_same, stage_written, stage_wb, stage_rb, stage_lists_rb, stage_lists_new]
    simpa using hd

theorem own_stop (h : Inv c all s) (hu : (rcls s.rpc).safe? = false) (hno : rcls s.rpc ≠ .raised)
    (hnd : rcls s.rpc ≠ .done) (hnt : (rcls s.rpc).trig? = false) :
    ((s.wpc = .wait ∧ s.td = false) ∨ s.wpc = .clrTD) ∧ (s.wpc = .wait ∨ s.wpc = .clrTD) ∧ plainW s.wpc := by
  rcases plain_of_unsafe h hu hno hnd with hp | hp
  · exact ⟨Or.inl hp, Or.inl hp.1, by rw [hp.1]; exact plainW_wait⟩
  · exact ⟨Or.inr hp.1, Or.inr hp.1, by rw [hp.1]; exact plainW_clrTD⟩

theorem firstS_cases (c : Cfg) : (firstS c = .sStop 0 ∧ 0 < c.n) ∨ (firstS c = .done ∧ c.n = 0) := by
  unfold firstS; split
  · exact Or.inl ⟨rfl, by assumption⟩
  · exact Or.inr ⟨rfl, by omega⟩

theorem nextS_cases (c : Cfg) (j : Nat) :
    (nextS c j = .sStop (j + 1) ∧ j + 1 < c.n) ∨ (nextS c j = .done ∧ c.n ≤ j + 1) := by
  unfold nextS; split
  · exact Or.inl ⟨rfl, by assumption⟩
  · exact Or.inr ⟨rfl, by omega⟩

theorem stepR_sClrTD (h : Inv c all s) (hr : s.rpc = .sClrTD) : Inv c all (stepR c s) := by
  obtain ⟨hw, hw', hpl⟩ := own_stop h (by simp [hr, rcls, RC.safe?]) (by simp [hr, rcls]) (by simp [hr, rcls])
    (by simp [hr, rcls, RC.trig?])
  have hops := h.opsNil (by simp [hr, inStop])
  simp only [stepR, hr]
  refine h.of_R_flags sameW rfl rfl rfl hpl (by rcases hw' with e | e <;> simp [e]) ?_ (by simp [rIdx])
    (by simp [RLoc]) ?_ ?_ ?_ ?_ (by simp [hr]) ?_ ?_
  · unfold Fine.compat
    rcases hw with hw | hw <;> simp_all [compatC, wcls, rcls, waiting, RC.safe?, RC.trig?]
  · intro i hi hm; unfold mustBeEmpty at hm ⊢
    rcases hw with hw | hw <;> simp_all [mustBeEmptyC, wcls, rcls]
  · intro i hi hs; simp [stagedByStop, rcls] at hs
  · intro i hi _; simp [closedByStop, rcls, rFin, hr]
  · intro _; simp [inStop, hr]
  · intro i hi
    rw [pend_plain_nofin _ i (by simpa using hpl) (by simp), pend_plain_nofin s i hpl (by simp [hr])]
  · intro i; simp [curPart, notYet, hr]

theorem stepR_sClrFin (h : Inv c all s) (hr : s.rpc = .sClrFin) : Inv c all (stepR c s) := by
  obtain ⟨hw, hw', hpl⟩ := own_stop h (by simp [hr, rcls, RC.safe?]) (by simp [hr, rcls]) (by simp [hr, rcls])
    (by simp [hr, rcls, RC.trig?])
  have hops := h.opsNil (by simp [hr, inStop])
  simp only [stepR, hr]
  refine h.of_R_flags sameW rfl rfl rfl hpl (by rcases hw' with e | e <;> simp [e]) ?_ ?_ ?_ ?_ ?_ ?_ ?_
    (by simp [hr]) ?_ ?_
  · unfold Fine.compat
    rcases firstS_cases c with ⟨e, _⟩ | ⟨e, _⟩ <;> rcases hw with hw | hw <;>
      simp_all [compatC, wcls, rcls, waiting, RC.safe?, RC.trig?]
  · intro k hk; rcases firstS_cases c with ⟨e, _⟩ | ⟨e, _⟩ <;> simp_all [rIdx]
  · rcases firstS_cases c with ⟨e, _⟩ | ⟨e, _⟩ <;> simp [RLoc, e]
  · intro i hi hm; unfold mustBeEmpty at hm ⊢
    rcases hw with hw | hw <;> simp_all [mustBeEmptyC, wcls, rcls]
  · intro i hi hs; rcases firstS_cases c with ⟨e, _⟩ | ⟨e, _⟩ <;> simp_all [stagedByStop, rcls]
  · intro i hi hcb; rcases firstS_cases c with ⟨e, _⟩ | ⟨e, _⟩ <;> simp_all [closedByStop, rcls, rFin]
  · intro _; simp [inStop, hr]
  · intro i hi
    rw [pend_plain_nofin s i hpl (by simp [hr])]
    rcases firstS_cases c with ⟨e, _⟩ | ⟨e, hn⟩
    · simp [pend, e]
    · omega
  · intro i; rcases firstS_cases c with ⟨e, _⟩ | ⟨e, _⟩ <;> simp [curPart, notYet, hr, e]

/-- the events are where `stop()` left them while it works through the data sets -/
theorem compat_sFin (s' : State) (j : Nat) (b b' : Bool) (hcl : rcls s.rpc = .sFin j b) (hcl' : rcls s'.rpc = .sFin j b')
    (hwt : waiting s'.rpc = false) (htd : s'.td = s.td) (hfin : s'.fin = s.fin) (hwpc : s'.wpc = s.wpc)
    (hc : Fine.compat s = true) : Fine.compat s' = true := by
  unfold Fine.compat at hc ⊢
  rw [htd, hfin, hwpc, hcl', hwt]
  rw [hcl] at hc
  cases hw : wcls s.wpc <;> simp_all [compatC, RC.safe?, RC.trig?]

theorem stepR_sStop (h : Inv c all s) (j : Nat) (hr : s.rpc = .sStop j) : Inv c all (stepR c s) := by
  have hj : j < c.n := h.ridx j (by simp [hr, rIdx])
  have hcl : rcls s.rpc = .sFin j false := by rw [hr]; rfl
  obtain ⟨hw, hw', hpl⟩ := own_stop h (by simp [hr, rcls, RC.safe?]) (by simp [hr, rcls]) (by simp [hr, rcls])
    (by simp [hr, rcls, RC.trig?])
  have hemp : (s.ds j).lists (s.ds j).wb = [] := by
    apply h.empty j hj; unfold mustBeEmpty; simp [hr, rcls, mustBeEmptyC]
  have hfo := fileOk_own h j hj hw' (by simp [hr, rcls, closedByStop])
  simp only [stepR, hr]
  refine h.of_R_own j sameW (fun i hi => by simp [setDs_other _ _ hi]) rfl rfl hw'
    (compat_sFin _ j false false hcl rfl rfl rfl rfl rfl h.compat) (by simp [hr]) (by simp [rIdx, hj]) (by simp [RLoc])
    (by simpa using h.rbwb j hj) ?_ ?_ ?_ (by simp [inStop, hr]) ?_ ?_
  · intro i hi hm
    unfold mustBeEmpty at hm ⊢
    simp only [rcls, mustBeEmptyC, hr] at hm ⊢
    exact ⟨fun _ => hm, fun e => by simpa using hemp⟩
  · intro i hi hs
    simp only [rcls, stagedByStop, hr] at hs ⊢
    refine ⟨fun _ => hs, fun e => ?_⟩
    simp at hs; omega
  · intro i hi hcb
    simp only [rcls, closedByStop, hr] at hcb ⊢
    refine ⟨fun _ => ⟨hcb, by simp [rFin]⟩, fun _ => ?_⟩
    simpa [FileOk, rFin, hr] using hfo
  · intro i hi hij; simp [pend, curPart, notYet, hr, setDs_other _ _ hij]
  · intro _ hd
    unfold dataEq at hd ⊢
    simpa [pend, curPart, notYet, hr, written_eq] using hd

theorem stepR_sStage (h : Inv c all s) (j : Nat) (hr : s.rpc = .sStage j) : Inv c all (stepR c s) := by
  have hj : j < c.n := h.ridx j (by simp [hr, rIdx])
  have hcl : rcls s.rpc = .sFin j false := by rw [hr]; rfl
  obtain ⟨hw, hw', hpl⟩ := own_stop h (by simp [hr, rcls, RC.safe?]) (by simp [hr, rcls]) (by simp [hr, rcls])
    (by simp [hr, rcls, RC.trig?])
  have hemp : (s.ds j).lists (s.ds j).wb = [] := by
    apply h.empty j hj; unfold mustBeEmpty; simp [hr, rcls, mustBeEmptyC]
  have hfo := fileOk_own h j hj hw' (by simp [hr, rcls, closedByStop])
  simp only [stepR, hr]
  refine h.of_R_own j sameW (fun i hi => by simp [setDs_other _ _ hi]) rfl rfl hw'
    (compat_sFin _ j false true hcl rfl rfl rfl rfl rfl h.compat) (by simp [hr]) (by simp [rIdx, hj]) (by simp [RLoc])
    (by simp) ?_ ?_ ?_ (by simp [inStop, hr]) ?_ ?_
  · intro i hi hm
    unfold mustBeEmpty at hm ⊢
    simp only [rcls, mustBeEmptyC, hr] at hm ⊢
    simp at hm
    exact ⟨fun _ => by simp; omega, fun e => by omega⟩
  · intro i hi hs
    simp only [rcls, stagedByStop, hr] at hs ⊢
    refine ⟨fun hij => ?_, fun e => by simp⟩
    simp at hs ⊢; omega
  · intro i hi hcb
    simp only [rcls, closedByStop, hr] at hcb ⊢
    refine ⟨fun _ => ⟨hcb, by simp [rFin]⟩, fun _ => ?_⟩
    simp only [setDs_same]
    exact FileOk_stage _ _ (by simpa [rFin, hr] using hfo)
  · intro i hi hij; simp [pend, curPart, notYet, hr, setDs_other _ _ hij]
  · intro _ hd
    unfold dataEq at hd ⊢
    simp only [pend, curPart, notYet, hr, Nat.lt_irrefl, if_false, hemp] at hd
    simp only [pend, curPart, notYet, setDs_same, Nat.lt_irrefl, if_false, stage_written, stage_wb, stage_rb,
      stage_lists_rb, stage_lists_new]
    simpa using hd

theorem stepR_sFmtGet (h : Inv c all s) (j : Nat) (hr : s.rpc = .sFmtGet j) : Inv c all (stepR c s) := by
  have hj : j < c.n := h.ridx j (by simp [hr, rIdx])
  have hcl : rcls s.rpc = .sFin j true := by rw [hr]; rfl
  obtain ⟨hw, hw', hpl⟩ := own_stop h (by simp [hr, rcls, RC.safe?]) (by simp [hr, rcls]) (by simp [hr, rcls])
    (by simp [hr, rcls, RC.trig?])
  have hfo := fileOk_own h j hj hw' (by simp [hr, rcls, closedByStop])
  simp only [stepR, hr]
  refine h.of_R_own j sameW (fun i hi => rfl) rfl rfl hw'
    (compat_sFin _ j true true hcl rfl rfl rfl rfl rfl h.compat) (by simp [hr]) (by simp [rIdx, hj]) ?_
    (h.rbwb j hj) ?_ ?_ ?_ (by simp [inStop, hr]) ?_ ?_
  · simp only [RLoc]; simp only [FileOk, hr] at hfo; exact hfo.2.1
  · intro i hi hm
    unfold mustBeEmpty at hm ⊢
    simp only [rcls, mustBeEmptyC, hr] at hm ⊢
    exact ⟨fun _ => hm, fun e => by simp at hm; omega⟩
  · intro i hi hs
    simp only [rcls, stagedByStop, hr] at hs ⊢
    exact ⟨fun _ => hs, fun e => h.rbufNil j hj (by simp [hr, rcls, stagedByStop])⟩
  · intro i hi hcb
    simp only [rcls, closedByStop, hr] at hcb ⊢
    refine ⟨fun _ => ⟨hcb, by simp [rFin]⟩, fun _ => ?_⟩
    simpa [rFin, hr] using hfo
  · intro i hi hij; simp [pend, curPart, notYet, hr]
  · intro _ hd
    unfold dataEq at hd ⊢
    simpa [pend, curPart, notYet, hr] using hd

theorem stepR_sWbufGet (h : Inv c all s) (j : Nat) (hr : s.rpc = .sWbufGet j) : Inv c all (stepR c s) := by
  have hj : j < c.n := h.ridx j (by simp [hr, rIdx])
  have hcl : rcls s.rpc = .sFin j true := by rw [hr]; rfl
  obtain ⟨hw, hw', hpl⟩ := own_stop h (by simp [hr, rcls, RC.safe?]) (by simp [hr, rcls]) (by simp [hr, rcls])
    (by simp [hr, rcls, RC.trig?])
  have hfo := fileOk_own h j hj hw' (by simp [hr, rcls, closedByStop])
  have hl := h.rloc
  simp only [RLoc, hr] at hl
  simp only [stepR, hr]
  refine h.of_R_own j sameW (fun i hi => rfl) rfl rfl hw'
    (compat_sFin _ j true true hcl rfl rfl rfl rfl rfl h.compat) (by simp [hr]) (by simp [rIdx, hj]) ?_
    (h.rbwb j hj) ?_ ?_ ?_ (by simp [inStop, hr]) ?_ ?_
  · simp [RLoc, hl, callOk]
  · intro i hi hm
    unfold mustBeEmpty at hm ⊢
    simp only [rcls, mustBeEmptyC, hr] at hm ⊢
    exact ⟨fun _ => hm, fun e => by simp at hm; omega⟩
  · intro i hi hs
    simp only [rcls, stagedByStop, hr] at hs ⊢
    exact ⟨fun _ => hs, fun e => h.rbufNil j hj (by simp [hr, rcls, stagedByStop])⟩
  · intro i hi hcb
    simp only [rcls, closedByStop, hr] at hcb ⊢
    refine ⟨fun _ => ⟨hcb, by simp [rFin]⟩, fun _ => ?_⟩
    simpa [rFin, hr] using hfo
  · intro i hi hij; simp [pend, curPart, notYet, hr, hij]
  · intro _ hd
    unfold dataEq at hd ⊢
    simpa [pend, curPart, notYet, hr, callPend] using hd

theorem stepR_sCall (h : Inv c all s) (j : Nat) (hr : s.rpc = .sCall j) : Inv c all (stepR c s) := by
  have hj : j < c.n := h.ridx j (by simp [hr, rIdx])
  have hcl : rcls s.rpc = .sFin j true := by rw [hr]; rfl
  obtain ⟨hw, hw', hpl⟩ := own_stop h (by simp [hr, rcls, RC.safe?]) (by simp [hr, rcls]) (by simp [hr, rcls])
    (by simp [hr, rcls, RC.trig?])
  have hfo := fileOk_own h j hj hw' (by simp [hr, rcls, closedByStop])
  simp only [FileOk, hr, rFin] at hfo
  have hl := h.rloc
  simp only [RLoc, hr] at hl
  obtain ⟨hlf, hll, hlok⟩ := hl
  have hspec := callStep_spec (c.kind j) (c.fault s.ioc) (s.ds j) s.rcall hlok
  have hrw := h.rbwb j hj
  have hops := h.opsNil (by simp [hr, inStop])
  have hrb := h.rbufNil j hj (by simp [hr, rcls, stagedByStop])
  simp only [stepR, hr]
  cases hres : callStep (c.kind j) (c.fault s.ioc) (s.ds j) s.rcall with
  | cont d k' =>
    rw [hres] at hspec
    obtain ⟨hfr, hf', hl', hck', hok', hpend, htc⟩ := hspec
    simp only
    refine h.of_R_own j sameW (fun i hi => by simp [setDs_other _ _ hi]) rfl rfl hw'
      (compat_sFin _ j true true hcl rfl rfl rfl rfl rfl h.compat) (by simp [hr]) (by simp [rIdx, hj]) ?_
      (by simpa [hfr.wb, hfr.rb] using hrw) ?_ ?_ ?_ (by simp [inStop, hr]) ?_ ?_
    · simp [RLoc, hf', hl', hok', hlf, hll, hfr.sub, hfr.wb]
    · intro i hi hm
      unfold mustBeEmpty at hm ⊢
      simp only [rcls, mustBeEmptyC, hr] at hm ⊢
      exact ⟨fun _ => hm, fun e => by simp at hm; omega⟩
    · intro i hi hs
      simp only [rcls, stagedByStop, hr] at hs ⊢
      exact ⟨fun _ => hs, fun e => by simpa [hfr.rb, hfr.lists] using hrb⟩
    · intro i hi hcb
      simp only [rcls, closedByStop, hr] at hcb ⊢
      refine ⟨fun _ => ⟨hcb, by simp [rFin]⟩, fun _ => ?_⟩
      simp only [setDs_same, FileOk, rFin]
      rw [hfr.fd, hfr.fmt, hfr.sub, ← hlf, hfr.closed, htc, hlf]
      simpa using hfo
    · intro i hi hij; simp [pend, curPart, notYet, hr, hij, setDs_other _ _ hij]
    · intro _ hd
      unfold dataEq at hd ⊢
      simp only [pend, curPart, notYet, hr, Nat.lt_irrefl, if_false, if_true] at hd
      simp only [pend, curPart, notYet, setDs_same, Nat.lt_irrefl, if_false, if_true]
      rw [written_of_frame hfr hlf, hfr.lists, hfr.wb, hfr.rb, ← hll]
      rw [← hll, ← hpend] at hd
      simpa using hd
  | ret d =>
    rw [hres] at hspec
    obtain ⟨hfr, hpend, htc⟩ := hspec
    simp only
    refine h.of_R_own j sameW (fun i hi => by simp [setDs_other _ _ hi]) rfl rfl hw'
      (compat_sFin _ j true true hcl rfl rfl rfl rfl rfl h.compat) (by simp [hr]) (by simp [rIdx, hj]) (by simp [RLoc])
      (by simpa [hfr.wb, hfr.rb] using hrw) ?_ ?_ ?_ (by simp [inStop, hr]) ?_ ?_
    · intro i hi hm
      unfold mustBeEmpty at hm ⊢
      simp only [rcls, mustBeEmptyC, hr] at hm ⊢
      exact ⟨fun _ => hm, fun e => by simp at hm; omega⟩
    · intro i hi hs
      simp only [rcls, stagedByStop, hr] at hs ⊢
      exact ⟨fun _ => hs, fun e => by simpa [hfr.rb, hfr.lists] using hrb⟩
    · intro i hi hcb
      simp only [rcls, closedByStop, hr] at hcb ⊢
      refine ⟨fun hij => ⟨hcb, by simp [rFin, hij]; omega⟩, fun _ => ?_⟩
      simp only [setDs_same, FileOk, rFin]
      rw [hfr.fd, hfr.fmt, hfr.sub, ← hlf, hfr.closed, hlf]
      simp [hfo.1, hfo.2.1, hfo.2.2.1]
    · intro i hi hij
      simp only [pend, curPart, notYet, hr, setDs_other _ _ hij, hij, if_false, and_true]
      by_cases hlt : i < j
      · simp [hlt, Nat.le_of_lt hlt]
      · have : ¬ i ≤ j := by omega
        simp [hlt, this]
    · intro _ hd
      unfold dataEq at hd ⊢
      simp only [pend, curPart, notYet, hr, Nat.lt_irrefl, if_false, if_true] at hd
      simp only [pend, curPart, notYet, setDs_same, Nat.le_refl, if_true]
      rw [written_of_frame hfr hlf, hfr.lists, hfr.rb, hpend, hll]
      simpa using hd
  | exc =>
    simp only
    exact h.of_raised (Or.inr ⟨rfl, hops⟩) sameW (fun _ => DsSame.refl _)

theorem stepR_sFdGet (h : Inv c all s) (j : Nat) (hr : s.rpc = .sFdGet j) : Inv c all (stepR c s) := by
  have hj : j < c.n := h.ridx j (by simp [hr, rIdx])
  have hcl : rcls s.rpc = .sFin j true := by rw [hr]; rfl
  obtain ⟨hw, hw', hpl⟩ := own_stop h (by simp [hr, rcls, RC.safe?]) (by simp [hr, rcls]) (by simp [hr, rcls])
    (by simp [hr, rcls, RC.trig?])
  have hfo := fileOk_own h j hj hw' (by simp [hr, rcls, closedByStop])
  simp only [stepR, hr]
  refine h.of_R_own j sameW (fun i hi => rfl) rfl rfl hw'
    (compat_sFin _ j true true hcl rfl rfl rfl rfl rfl h.compat) (by simp [hr]) (by simp [rIdx, hj]) (by simp [RLoc])
    (h.rbwb j hj) ?_ ?_ ?_ (by simp [inStop, hr]) ?_ ?_
  · intro i hi hm
    unfold mustBeEmpty at hm ⊢
    simp only [rcls, mustBeEmptyC, hr] at hm ⊢
    exact ⟨fun _ => hm, fun e => by simp at hm; omega⟩
  · intro i hi hs
    simp only [rcls, stagedByStop, hr] at hs ⊢
    exact ⟨fun _ => hs, fun e => h.rbufNil j hj (by simp [hr, rcls, stagedByStop])⟩
  · intro i hi hcb
    simp only [rcls, closedByStop, hr] at hcb ⊢
    refine ⟨fun _ => ⟨hcb, by simp [rFin]⟩, fun _ => ?_⟩
    simpa [rFin, hr] using hfo
  · intro i hi hij; simp [pend, curPart, notYet, hr]
  · intro _ hd
    unfold dataEq at hd ⊢
    simpa [pend, curPart, notYet, hr] using hd

theorem stepR_sFdGet2 (h : Inv c all s) (j : Nat) (hr : s.rpc = .sFdGet2 j) : Inv c all (stepR c s) := by
  have hj : j < c.n := h.ridx j (by simp [hr, rIdx])
  have hcl : rcls s.rpc = .sFin j true := by rw [hr]; rfl
  obtain ⟨hw, hw', hpl⟩ := own_stop h (by simp [hr, rcls, RC.safe?]) (by simp [hr, rcls]) (by simp [hr, rcls])
    (by simp [hr, rcls, RC.trig?])
  have hfo := fileOk_own h j hj hw' (by simp [hr, rcls, closedByStop])
  simp only [stepR, hr]
  refine h.of_R_own j sameW (fun i hi => rfl) rfl rfl hw'
    (compat_sFin _ j true true hcl rfl rfl rfl rfl rfl h.compat) (by simp [hr]) (by simp [rIdx, hj]) ?_
    (h.rbwb j hj) ?_ ?_ ?_ (by simp [inStop, hr]) ?_ ?_
  · simp only [RLoc]; simp only [FileOk, hr] at hfo; exact hfo.1
  · intro i hi hm
    unfold mustBeEmpty at hm ⊢
    simp only [rcls, mustBeEmptyC, hr] at hm ⊢
    exact ⟨fun _ => hm, fun e => by simp at hm; omega⟩
  · intro i hi hs
    simp only [rcls, stagedByStop, hr] at hs ⊢
    exact ⟨fun _ => hs, fun e => h.rbufNil j hj (by simp [hr, rcls, stagedByStop])⟩
  · intro i hi hcb
    simp only [rcls, closedByStop, hr] at hcb ⊢
    refine ⟨fun _ => ⟨hcb, by simp [rFin]⟩, fun _ => ?_⟩
    simpa [rFin, hr] using hfo
  · intro i hi hij; simp [pend, curPart, notYet, hr]
  · intro _ hd
    unfold dataEq at hd ⊢
    simpa [pend, curPart, notYet, hr] using hd

theorem stepR_sClose (h : Inv c all s) (j : Nat) (hr : s.rpc = .sClose j) : Inv c all (stepR c s) := by
  have hj : j < c.n := h.ridx j (by simp [hr, rIdx])
  have hcl : rcls s.rpc = .sFin j true := by rw [hr]; rfl
  obtain ⟨hw, hw', hpl⟩ := own_stop h (by simp [hr, rcls, RC.safe?]) (by simp [hr, rcls]) (by simp [hr, rcls])
    (by simp [hr, rcls, RC.trig?])
  have hops := h.opsNil (by simp [hr, inStop])
  have hrb := h.rbufNil j hj (by simp [hr, rcls, stagedByStop])
  have hc := h.compat
  unfold Fine.compat at hc
  rw [hcl, hr] at hc
  simp only [stepR, hr]
  split
  · exact h.of_raised (Or.inr ⟨rfl, hops⟩) sameW (fun _ => DsSame.refl _)
  · refine h.of_R_own j sameW (fun i hi => by simp [setDs_other _ _ hi]) rfl rfl hw' ?_ (by simp [hr]) ?_ ?_
      (by simpa using h.rbwb j hj) ?_ ?_ ?_ ?_ ?_ ?_
    · unfold Fine.compat
      rcases nextS_cases c j with ⟨e, _⟩ | ⟨e, _⟩ <;> rcases hw with hw | hw <;>
        simp_all [compatC, wcls, rcls, waiting, RC.safe?, RC.trig?]
    · intro k hk; rcases nextS_cases c j with ⟨e, _⟩ | ⟨e, _⟩ <;> simp_all [rIdx]
    · rcases nextS_cases c j with ⟨e, _⟩ | ⟨e, _⟩ <;> simp [RLoc, e]
    · intro i hi hm
      unfold mustBeEmpty at hm ⊢
      rcases nextS_cases c j with ⟨e, _⟩ | ⟨e, _⟩ <;> simp_all [mustBeEmptyC, rcls] <;> omega
    · intro i hi hs
      refine ⟨fun hij => ?_, fun e => by simpa using hrb⟩
      rcases nextS_cases c j with ⟨e, _⟩ | ⟨e, _⟩ <;> simp_all [stagedByStop, rcls] <;> omega
    · intro i hi hcb
      rcases nextS_cases c j with ⟨e, _⟩ | ⟨e, _⟩ <;> simp_all [closedByStop, rcls, rFin]
      constructor
      · intro hij; exact ⟨by omega, by omega⟩
      · intro hij; omega
    · intro _; simp [inStop, hr]
    · intro i hi hij
      rcases nextS_cases c j with ⟨e, hn⟩ | ⟨e, hn⟩
      · simp only [pend, curPart, notYet, hr, e, setDs_other _ _ hij, and_true]
        by_cases hlt : i ≤ j
        · simp [hlt, Nat.lt_succ_of_le hlt]
        · have : ¬ i < j + 1 := by omega
          simp [hlt, this]
      · simp only [pend, curPart, notYet, hr, e, setDs_other _ _ hij, and_true]
        have : i ≤ j := by omega
        simp [this]
    · intro _ hd
      unfold dataEq at hd ⊢
      simp only [pend, curPart, notYet, hr, Nat.le_refl, if_true] at hd
      rcases nextS_cases c j with ⟨e, hn⟩ | ⟨e, hn⟩ <;>
        simp only [pend, curPart, notYet, e, setDs_same, Nat.lt_succ_self, if_true] <;>
        simpa [written_setFile] using hd

/-- every step of the recording thread preserves the invariant -/
theorem stepR_inv (h : Inv c all s) : Inv c all (stepR c s) := by
  cases hr : s.rpc with
  | idle => exact stepR_idle h hr
  | uAlive => exact stepR_uAlive h hr
  | uAppend i => exact stepR_uAppend h i hr
  | uFlag i => exact stepR_uFlag h i hr
  | uIsSet => exact stepR_uIsSet h hr
  | uStage i => exact stepR_uStage h i hr
  | uClrFin => exact stepR_uClrFin h hr
  | uSetTD => exact stepR_uSetTD h hr
  | sIsSet => exact stepR_sIsSet h hr
  | sWait => exact stepR_sWait h hr
  | sAlive => exact stepR_sAlive h hr
  | sClrTD => exact stepR_sClrTD h hr
  | sClrFin => exact stepR_sClrFin h hr
  | sStop i => exact stepR_sStop h i hr
  | sStage i => exact stepR_sStage h i hr
  | sFmtGet i => exact stepR_sFmtGet h i hr
  | sWbufGet i => exact stepR_sWbufGet h i hr
  | sCall i => exact stepR_sCall h i hr
  | sFdGet i => exact stepR_sFdGet h i hr
  | sFdGet2 i => exact stepR_sFdGet2 h i hr
  | sClose i => exact stepR_sClose h i hr
  | done => simp only [stepR, hr]; exact h
  | raisedT => simp only [stepR, hr]; exact h
  | raisedIO => simp only [stepR, hr]; exact h

end
end Pyrtma.DataLog.Fine
