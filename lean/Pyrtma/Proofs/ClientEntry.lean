import Pyrtma.Spec.ClientEntry
/-! Lemmas about Python's argument binding as modelled in `Model/ClientEntry.lean`.  Core Lean only. -/
namespace Pyrtma.ClientEntry

/-- binding yields one entry per formal, in the order of the signature -/
theorem bindFrom_names {α : Type} (dflt : Val → α) (pos : List α) (kw : List (Nm × α)) :
    ∀ (sig : Sig) (i : Nat) (e : Env α), bindFrom dflt pos kw sig i = some e → e.map (·.1) = sig.map (·.1)
  | [], _, e, h => by simp [bindFrom] at h; simp [h]
  | (n, d) :: rest, i, e, h => by
    unfold bindFrom at h
    simp only at h
    split at h
    · rename_i v e' _ h2
      simp only [Option.some.injEq] at h
      subst h
      simp [bindFrom_names dflt pos kw rest (i + 1) e' h2]
    · cases h

theorem bindArgs_names {α : Type} (dflt : Val → α) (sig : Sig) (a : Actuals α) (e : Env α)
    (h : bindArgs dflt sig a = some e) : e.map (·.1) = sig.map (·.1) := by
  unfold bindArgs at h
  split at h
  · cases h
  · split at h
    · cases h
    · exact bindFrom_names dflt a.pos a.kw sig 0 e h

end Pyrtma.ClientEntry
