import Pyrtma.Spec.ClientEntry
/-! Lemmas about Python's argument binding as modelled in `Model/ClientEntry.lean`.  Core Lean only. -/
namespace Pyrtma.ClientEntry

/-- binding yields one entry per formal, in the order of the signature -/
theorem bindFrom_names {α : Type} (dflt : Val → α) (pos : List α) (kw : List (Nm × α)) :
    ∀ (sig : Sig) (i : Nat) (e : Env α), bindFrom dflt pos kw sig i = some e → e.map (·.1) = sig.map (·.1)
  | [], _, e, h => by simp [bindFrom] at h; simp [h]
  | (n, d) :: rest, i, e, h => by
    unfold bindFrom at h
    split at h
    · rename_i v e' _ h2
      simp only [Option.some.injEq] at h
      subst h
      simp [bindFrom_names dflt pos kw rest (i + 1) e' h2]
    · cases h

theorem bindArgs_names {α : Type} (dflt : Val → α) (sig : Sig) (a : Actuals α) (e : Env α)
    (h : bindArgs dflt sig a = some e) : e.map (·.1) = sig.map (·.1) := by
  unfold bindArgs at h
  split at h
  · cases h
  · split at h
    · cases h
    · exact bindFrom_names dflt a.pos a.kw sig 0 e h

theorem lookup_nil {α : Type} (n : Nm) : lookup ([] : Env α) n = none := rfl

theorem lookup_cons {α : Type} (n m : Nm) (v : α) (e : Env α) :
    lookup ((m, v) :: e) n = if m = n then some v else lookup e n := by
  by_cases h : m = n <;> simp [lookup, h]

/-- every formal of the signature is bound -/
theorem lookup_of_names {α : Type} : ∀ (e : Env α) (ns : List Nm), e.map (·.1) = ns → ∀ n ∈ ns, ∃ v, lookup e n = some v
  | [], _, h, n, hn => by subst h; simp at hn
  | (m, v) :: e, ns, h, n, hn => by
    subst h
    rw [lookup_cons]
    by_cases hm : m = n
    · exact ⟨v, by simp [hm]⟩
    · simp only [hm, if_false]
      simp only [List.map_cons, List.mem_cons] at hn
      rcases hn with hn | hn
      · exact absurd hn.symm hm
      · exact lookup_of_names e _ rfl n hn

/-- **An actual lands in the formal of its position / of its name; an omitted one gets the default.**  For a
signature without repeated names, the environment of a successful binding maps the `j`-th formal to exactly what
`argFor` says. -/
theorem bindFrom_lookup {α : Type} (dflt : Val → α) (pos : List α) (kw : List (Nm × α)) :
    ∀ (sig : Sig) (i : Nat) (e : Env α), bindFrom dflt pos kw sig i = some e → (sig.map (·.1)).Nodup →
      ∀ (j : Nat) (n : Nm) (d : Option Val), sig[j]? = some (n, d) →
        lookup e n = argFor dflt pos kw n d (i + j) ∧ (lookup e n).isSome = true
  | [], _, _, _, _, j, n, d, hj => by simp at hj
  | (m, dm) :: rest, i, e, h, hnd, j, n, d, hj => by
    unfold bindFrom at h
    split at h
    · rename_i v e' hv h2
      simp only [Option.some.injEq] at h
      subst h
      cases j with
      | zero =>
        simp only [List.getElem?_cons_zero, Option.some.injEq, Prod.mk.injEq] at hj
        obtain ⟨rfl, rfl⟩ := hj
        have : lookup ((m, v) :: e') m = some v := by simp [lookup_cons]
        rw [this]
        exact ⟨by simpa using hv.symm, rfl⟩
      | succ j =>
        simp only [List.getElem?_cons_succ] at hj
        simp only [List.map_cons, List.nodup_cons] at hnd
        have hmem : n ∈ rest.map (·.1) := by
          have := List.mem_of_getElem? hj
          exact List.mem_map.2 ⟨(n, d), this, rfl⟩
        have hne : m ≠ n := fun hh => hnd.1 (hh ▸ hmem)
        rw [lookup_cons]
        simp only [hne, if_false]
        have := bindFrom_lookup dflt pos kw rest (i + 1) e' h2 hnd.2 j n d hj
        have hidx : i + 1 + j = i + (j + 1) := by omega
        rw [hidx] at this
        exact this
    · cases h

theorem bindArgs_lookup {α : Type} (dflt : Val → α) (sig : Sig) (a : Actuals α) (e : Env α)
    (h : bindArgs dflt sig a = some e) (hnd : (sig.map (·.1)).Nodup) (j : Nat) (n : Nm) (d : Option Val)
    (hj : sig[j]? = some (n, d)) : lookup e n = argFor dflt a.pos a.kw n d j := by
  unfold bindArgs at h
  split at h
  · cases h
  · split at h
    · cases h
    · have := (bindFrom_lookup dflt a.pos a.kw sig 0 e h hnd j n d hj).1
      simpa using this

end Pyrtma.ClientEntry
