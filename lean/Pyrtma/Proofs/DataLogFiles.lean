import Pyrtma.Spec.DataLogFiles
import Pyrtma.Proofs.DataLog
import Pyrtma.Proofs.DataLogFmt
/-!
# Reading back the files of a session (composition of the handshake model and the formatter model)
-/
namespace Pyrtma.DataLog
open Fmt

theorem dropLast_getLastD_flatten {α} (f : List (List α)) : f.dropLast.flatten ++ f.getLastD [] = f.flatten := by
  induction f with
  | nil => simp
  | cons a t ih =>
    cases t with
    | nil => simp
    | cons b t' =>
      simp only [List.dropLast_cons_cons, List.flatten_cons, List.getLastD_cons, List.append_assoc] at ih ⊢
      rw [← ih]

theorem map_parts_flatten {α β} (g : α → β) (f : List (List α)) :
    (f.dropLast.map (·.map g)).flatten ++ (f.getLastD []).map g = f.flatten.map g := by
  rw [← dropLast_getLastD_flatten f, List.map_append, List.map_flatten]

theorem renderRaw_eq (e : Enc) (f : List (List Msg)) :
    renderRaw e f = ((f.flatten.map e.frame).map rawFrame).flatten := by
  rw [renderRaw, rawFile_eq, map_parts_flatten]

theorem renderQL_eq (H : Nat) (e : Enc) (f : List (List Msg)) :
    renderQL H e f = qlCanon H (f.flatten.map e.frame) := by
  rw [renderQL, qlFile_eq, map_parts_flatten]

theorem renderJson_eq (e : Enc) (f : List (List Msg)) :
    renderJson e f = ((f.flatten.map e.text).map (· ++ ['\n'])).flatten := by
  rw [renderJson, jsonFile_eq, map_parts_flatten]

theorem frames_length (H off : Nat) (hH : 0 < H) (ms : List FMsg) (hwf : ∀ m ∈ ms, wfMsg H off m) :
    ms.length ≤ (ms.map rawFrame).flatten.length := by
  induction ms with
  | nil => simp
  | cons m ms ih =>
    have := ih (fun m hm => hwf m (by simp [hm]))
    have h1 := (hwf m (by simp)).1
    simp [rawFrame] at this ⊢
    omega

theorem readRaw_render (H off : Nat) (hH : 0 < H) (e : Enc) (hwf : ∀ m, wfMsg H off (e.frame m))
    (f : List (List Msg)) : readRaw H off (renderRaw e f) = f.flatten.map e.frame := by
  rw [renderRaw_eq, readRaw]
  have hw : ∀ m ∈ f.flatten.map e.frame, wfMsg H off m := by
    intro m hm; obtain ⟨x, _, rfl⟩ := List.mem_map.1 hm; exact hwf x
  exact rawRead_frames H off hH _ hw _ (by have := frames_length H off hH _ hw; omega)

theorem flatten_map_flatten {α} (F : List (List (List α))) : (F.map List.flatten).flatten = F.flatten.flatten := by
  induction F with
  | nil => rfl
  | cons a t ih => simp [ih]

theorem fileBatches_flatten (d : Ds) : (d.fileBatches.map List.flatten).flatten = d.written := by
  simp [Ds.fileBatches, Ds.written, Ds.files]

theorem map_read_flatten {β} (F : List (List (List Msg))) (rd : List (List Msg) → List β) (g : Msg → β)
    (h : ∀ f ∈ F, rd f = f.flatten.map g) : (F.map rd).flatten = (F.map List.flatten).flatten.map g := by
  induction F with
  | nil => rfl
  | cons a t ih =>
    simp only [List.map_cons, List.flatten_cons, List.map_append]
    rw [h a (by simp), ih (fun f hf => h f (by simp [hf]))]

/-- raw: whatever was written by whichever sequence of `write` / `finalize` calls, reading all files back
gives the messages -/
theorem raw_files_read_back (H off : Nat) (hH : 0 < H) (e : Enc) (hwf : ∀ m, wfMsg H off (e.frame m)) (d : Ds) :
    ((d.fileBatches.map (renderRaw e)).map (readRaw H off)).flatten = d.written.map e.frame := by
  rw [List.map_map, ← fileBatches_flatten]
  exact map_read_flatten _ _ _ (fun f _ => readRaw_render H off hH e hwf f)

theorem length_le_of_mem_flatten {α} (F : List (List α)) (f : List α) (h : f ∈ F) : f.length ≤ F.flatten.length := by
  induction F with
  | nil => cases h
  | cons a t ih =>
    simp only [List.mem_cons] at h
    simp only [List.flatten_cons, List.length_append]
    rcases h with rfl | h
    · omega
    · have := ih h; omega

theorem dataLen_le_of_mem_flatten (g : Msg → FMsg) (F : List (List Msg)) (f : List Msg) (h : f ∈ F) :
    dataLen (f.map g) ≤ dataLen (F.flatten.map g) := by
  induction F with
  | nil => cases h
  | cons a t ih =>
    simp only [List.mem_cons] at h
    simp only [List.flatten_cons, List.map_append, dataLen_append]
    rcases h with rfl | h
    · omega
    · have := ih h; omega

/-- quicklogger: every file reads back; concatenated in file order: the messages -/
theorem ql_files_read_back (H off : Nat) (e : Enc) (hwf : ∀ m, wfMsg H off (e.frame m)) (hH : H < 4294967296)
    (d : Ds) (hn : d.written.length < 4294967296) (hd : dataLen (d.written.map e.frame) < 4294967296) :
    ((d.fileBatches.map (renderQL H e)).map (qlRead off)).flatten = d.written.map e.frame := by
  rw [List.map_map, ← fileBatches_flatten]
  apply map_read_flatten
  intro f hf
  simp only [Function.comp, renderQL_eq]
  have hmem : f.flatten ∈ d.fileBatches.map List.flatten := List.mem_map.2 ⟨f, hf, rfl⟩
  have h1 := length_le_of_mem_flatten _ _ hmem
  have h2 := dataLen_le_of_mem_flatten e.frame _ _ hmem
  rw [fileBatches_flatten] at h1 h2
  exact qlRead_canon H off _ (by intro m hm; obtain ⟨x, _, rfl⟩ := List.mem_map.1 hm; exact hwf x) hH
    (by rw [List.length_map]; omega) (by omega)

/-- json: every file splits into complete lines; all lines in file order: the texts -/
theorem json_files_read_back (e : Enc) (hnl : ∀ m, '\n' ∉ e.text m) (d : Ds) :
    (∀ f ∈ d.fileBatches.map (renderJson e), (splitLines [] f).2 = []) ∧
    ((d.fileBatches.map (renderJson e)).map (fun f => (splitLines [] f).1)).flatten = d.written.map e.text := by
  have hs : ∀ f : List (List Msg), splitLines [] (renderJson e f) = (f.flatten.map e.text, []) := by
    intro f
    rw [renderJson_eq]
    exact splitLines_lines _ (by intro l hl; obtain ⟨x, _, rfl⟩ := List.mem_map.1 hl; exact hnl x)
  constructor
  · intro f hf
    obtain ⟨b, _, rfl⟩ := List.mem_map.1 hf
    rw [hs]
  · rw [List.map_map, ← fileBatches_flatten]
    exact map_read_flatten _ _ _ (fun f _ => by simp [Function.comp, hs])

end Pyrtma.DataLog
