import Pyrtma.Proofs.ManagerSimConn
/-!
# Refinement of the history-based Spec by the manager model M1 — a failed write is followed at once by the close

`run_adj`: in the log of every run of the model every `wfail v` is immediately followed by `close v` (`Adj`).  With the
close-once invariant `J` (nothing touches a connection after its close) this gives the whole-history C07 clause of
`Spec.checkC05`: nothing is written to a connection after the first failed write to it.
-/
namespace Pyrtma.Mgr

/-- a top-level step: crash-freedom is kept and the events written are `Adj` -/
def AT (cfg : Cfg) (s s' : State) : Prop := Top cfg s' ∧ ∃ ext, s'.out = s.out ++ ext ∧ Adj ext

theorem AT.refl {cfg : Cfg} {s : State} (h : Top cfg s) : AT cfg s s := ⟨h, [], by simp, trivial⟩

theorem AT.bind {cfg : Cfg} {a b c : State} (h1 : AT cfg a b) (f : Top cfg b → AT cfg b c) : AT cfg a c := by
  obtain ⟨t1, e1, o1, a1⟩ := h1
  obtain ⟨t2, e2, o2, a2⟩ := f t1
  exact ⟨t2, e1 ++ e2, by rw [o2, o1, List.append_assoc], adj_append _ _ a1 a2⟩

theorem DT.at {cfg : Cfg} {jx : Option Nat} {s s' : State} (h : DT cfg jx s s') : AT cfg s s' := by
  obtain ⟨e, o, d⟩ := h.dep
  exact ⟨h.top, e, o, d.adj⟩

theorem at_top {cfg : Cfg} {s s' : State} (h : Top cfg s') (ho : s'.out = s.out) : AT cfg s s' :=
  ⟨h, [], by simp [ho], trivial⟩

section pass
variable {cfg : Cfg} (ok : CfgOK cfg) (hall : OrdAll cfg) (hfuel : cfg.fuel = 0)
include ok hall hfuel

omit hall in
theorem at_upd {s : State} (h : Top cfg s) (u : Nat) (f : Module → Module) (hu : ∀ m, (f m).uid = m.uid)
    (hsb : ∀ m, (f m).subs = m.subs) (hc : ∀ m, (f m).closed = m.closed) : AT cfg s (s.upd u f) :=
  at_top (top_upd ok hfuel h u f hu hsb hc) rfl

omit hall in
theorem at_same {s : State} (h : Top cfg s) (s' : State) (hm : s'.mods = s.mods) (hi : s'.idx = s.idx)
    (hc : s'.crashed = s.crashed) (ho : s'.out = s.out) : AT cfg s s' :=
  at_top (top_same ok hfuel h s' hm hi hc) ho

omit hall in
theorem at_setW {s : State} (h : Top cfg s) (w : List Nat) : AT cfg s { s with wlist := w } :=
  at_same ok hfuel h _ rfl rfl rfl rfl

theorem at_connect {s : State} (h : Top cfg s) (u : Nat) (hd : Hdr) : AT cfg s (connectModule cfg s u hd).1 := by
  unfold connectModule
  dsimp only
  have refuse : ∀ {s0 : State}, AT cfg s s0 → AT cfg s (removeModule cfg (fwdTop cfg) (logAt cfg (fwdTop cfg) 40 s0) u) :=
    fun t0 => (t0.bind (fun h' => (dt_log ok hall hfuel h' 40).at)).bind (fun h' => (dt_remove ok hall hfuel h' u).at)
  split
  · exact AT.refl h
  · split
    · exact refuse (at_upd ok hfuel h u (setReq cfg s.buf hd) (fun m => (setReq_keeps cfg s.buf hd m).1)
        (fun m => (setReq_keeps cfg s.buf hd m).2) (fun m => (setReq_closed cfg s.buf hd m).2))
    · rename_i nm _
      have h1 : AT cfg s (s.upd u (setAll cfg s.buf hd nm)) :=
        at_upd ok hfuel h u (setAll cfg s.buf hd nm) (fun m => (setAll_keeps cfg s.buf hd nm m).1)
          (fun m => (setAll_keeps cfg s.buf hd nm m).2) (fun m => by unfold setAll; exact (setReq_closed cfg s.buf hd m).2)
      split
      · split
        · exact refuse h1
        · have hl := h1.bind (fun h' => (dt_clashLoop ok hall hfuel (setAll cfg s.buf hd nm (lookupMod s u))
            ((s.upd u (setAll cfg s.buf hd nm)).mods.filter (·.uid != u)) h').at)
          generalize clashLoop cfg (setAll cfg s.buf hd nm (lookupMod s u))
            ((s.upd u (setAll cfg s.buf hd nm)).mods.filter (·.uid != u)) (s.upd u (setAll cfg s.buf hd nm)) = r at hl
          obtain ⟨s2, cl⟩ := r
          dsimp only at hl ⊢
          split
          · exact refuse hl
          · exact (hl.bind (fun h' => at_upd ok hfuel h' u (fun m => { m with connected := true })
              (fun _ => rfl) (fun _ => rfl) (fun _ => rfl))).bind (fun h' => at_same ok hfuel h' _ rfl rfl rfl rfl)
      · split
        · exact refuse h1
        · rename_i id off _
          have h2 : AT cfg s ({ (s.upd u (setAll cfg s.buf hd nm)) with nextDyn := off } : State) :=
            h1.bind (fun h' => at_same ok hfuel h' _ rfl rfl rfl rfl)
          exact (h2.bind (fun h' => at_upd ok hfuel h' u (fun m => { m with modId := id, connected := true })
            (fun _ => rfl) (fun _ => rfl) (fun _ => rfl))).bind (fun h' => at_same ok hfuel h' _ rfl rfl rfl rfl)

theorem at_addSub {s : State} (h : Top cfg s) (u : Nat) (t : Int) (m : Module) (hm : s.find u = some m) :
    AT cfg s (addSub cfg s u t) := by
  have hc : AT cfg s (addSubCore cfg s u t) :=
    at_top (top_addSubCore ok hfuel h u t m hm) (addSubCore_misc cfg s u t).2.2.2.2.2
  unfold addSub; split
  · exact hc.bind (fun h' => (dt_log ok hall hfuel h' 10).at)
  · exact hc

theorem at_removeSub {s : State} (h : Top cfg s) (u : Nat) (t : Int) (m : Module) (hm : s.find u = some m) :
    AT cfg s (removeSub cfg s u t) := by
  have hc : AT cfg s (removeSubCore cfg s u t) :=
    at_top (top_removeSubCore ok hfuel h u t m hm) (removeSubCore_misc cfg s u t).2.2.2.2.2
  unfold removeSub; split
  · exact hc.bind (fun h' => (dt_log ok hall hfuel h' 10).at)
  · exact hc

theorem at_process {s : State} (h : Top cfg s) (u : Nat) (m : Module) (hm : s.find u = some m) (hd : Hdr) :
    AT cfg s (processMessage cfg s u hd) := by
  unfold processMessage
  dsimp only
  split
  · have hc := at_connect ok hall hfuel h u hd
    generalize connectModule cfg s u hd = r at hc
    obtain ⟨s1, okb⟩ := r
    dsimp only at hc ⊢
    split
    · exact ((hc.bind (fun h' => (dt_sendAck ok hall hfuel h' u).at)).bind (fun h' => (dt_infoOf ok hall hfuel h' _).at)).bind
        (fun h' => (dt_log ok hall hfuel h' 20).at)
    · exact hc
  · split
    · exact (dt_remove ok hall hfuel h u).at.bind (fun h' => (dt_log ok hall hfuel h' 20).at)
    · split
      · exact (at_addSub ok hall hfuel h u _ m hm).bind (fun h' => (dt_sendAck ok hall hfuel h' u).at)
      · split
        · exact (at_removeSub ok hall hfuel h u _ m hm).bind (fun h' => (dt_sendAck ok hall hfuel h' u).at)
        · split
          · split
            · exact (dt_log ok hall hfuel h 40).at.bind (fun h' => (dt_remove ok hall hfuel h' u).at)
            · rename_i nm _
              exact ((at_upd ok hfuel h u (fun m => { m with name := nm }) (fun _ => rfl) (fun _ => rfl) (fun _ => rfl)).bind
                (fun h' => (dt_log ok hall hfuel h' 20).at)).bind (fun h' => (dt_infoOf ok hall hfuel h' _).at)
          · split
            · exact (at_upd ok hfuel h u (fun m => { m with pid := bufI32 s.buf 0 }) (fun _ => rfl) (fun _ => rfl)
                (fun _ => rfl)).bind (fun h' => (dt_sendInfo ok hall hfuel h' u).at)
            · exact (dt_log ok hall hfuel h 10).at.bind (fun h' => (dt_fwd ok hall hfuel h' _ rfl).at)

theorem at_readOne {s : State} (h : Top cfg s) (r : Read) : AT cfg s (readOne cfg s r) := by
  unfold readOne
  split
  · exact AT.refl h
  · cases hm : s.find r.uid with
    | none => exact AT.refl h
    | some m =>
      dsimp only
      have he : AT cfg s (s.emit (.rd r.uid)) := ⟨top_of h (good_emit h.good _), [.rd r.uid], rfl, trivial⟩
      have hb : ∀ b, AT cfg s { (s.emit (.rd r.uid)) with buf := b } :=
        fun b => he.bind (fun h' => at_same ok hfuel h' _ rfl rfl rfl rfl)
      have rm : ∀ {s' : State}, AT cfg s s' → ∀ lvl, AT cfg s (logAt cfg (fwdTop cfg) lvl (removeModule cfg (fwdTop cfg) s' r.uid)) :=
        fun t' lvl => (t'.bind (fun h' => (dt_remove ok hall hfuel h' r.uid).at)).bind (fun h' => (dt_log ok hall hfuel h' lvl).at)
      split
      · exact rm he 40
      · split
        · exact rm he 30
        · split
          · exact rm he 30
          · split
            · split
              · exact rm he 40
              · split
                · exact rm (hb _) 30
                · exact (hb _).bind (fun h' => at_process ok hall hfuel h' _ m hm _)
            · exact he.bind (fun h' => at_process ok hall hfuel h' _ m hm _)

theorem at_readAll : ∀ (rs : List Read) {s : State}, Top cfg s → AT cfg s (readAll cfg rs s)
  | [], _, h => AT.refl h
  | r :: rest, s, h => by
    unfold readAll
    exact (at_readOne ok hall hfuel h r).bind (fun h' => at_readAll rest h')

theorem at_accept {s : State} (h : Top cfg s) : AT cfg s (acceptStep cfg s) := by
  obtain ⟨_, e, o, a⟩ := (dt_log ok hall hfuel h 20).at
  exact ⟨top_accept ok hfuel h, e, o, a⟩

theorem at_step {s : State} (h : Top cfg s) (r : Round) : AT cfg s (step cfg s r) := by
  unfold step
  split
  · exact AT.refl h
  · dsimp only
    have h0 : AT cfg s (envStep s r) := by unfold envStep; exact at_same ok hfuel h _ rfl rfl rfl rfl
    generalize envStep s r = e at h0
    have hio : AT cfg s (ioStep cfg e r.accept r.writable (r.reads.filter (fun rd => (e.find rd.uid).isSome))) := by
      unfold ioStep
      split
      · dsimp only
        have ha : AT cfg s (if r.accept then acceptStep cfg e else e) := by
          split
          · exact h0.bind (fun h' => at_accept ok hall hfuel h')
          · exact h0
        generalize (if r.accept then acceptStep cfg e else e) = a at ha
        exact (ha.bind (fun h' => at_setW ok hfuel h' _)).bind (fun h' => at_readAll ok hall hfuel _ h')
      · exact h0
    exact hio.bind (fun h' => (dt_ticks ok hall hfuel h').at)

/-- **In every run a failed write is followed at once by the close of the connection.** -/
theorem run_adj (rs : List Round) : Adj (run cfg rs).out := by
  have hinit : Top cfg (init cfg) ∧ Adj (init cfg).out := by
    have he : init cfg = logAt cfg (fwdTop cfg) 20 (s00 cfg) := rfl
    obtain ⟨t, e, o, a⟩ := (dt_log ok hall hfuel (top_s00 cfg) 20).at
    rw [he]
    refine ⟨t, ?_⟩
    rw [o]
    exact adj_append _ _ (by unfold s00; trivial) a
  have : ∀ (rs : List Round) (s : State), Top cfg s → Adj s.out → Adj (rs.foldl (step cfg) s).out := by
    intro rs; induction rs with
    | nil => intro s _ a; exact a
    | cons r rest ih =>
      intro s h a
      obtain ⟨t, e, o, ae⟩ := at_step ok hall hfuel h r
      exact ih _ t (by rw [o]; exact adj_append _ _ a ae)
  unfold run
  exact this rs _ hinit.1 hinit.2

end pass

/-! ## the whole-history clause -/

theorem dropWhile_cons_split {α : Type} (p : α → Bool) : ∀ (l : List α) (e : α) (rest : List α),
    l.dropWhile p = e :: rest → p e = false ∧ ∃ pre, l = pre ++ e :: rest
  | [], _, _, h => by simp at h
  | x :: xs, e, rest, h => by
    rw [List.dropWhile_cons] at h
    by_cases hx : p x = true
    · rw [if_pos hx] at h
      obtain ⟨h1, pre, h2⟩ := dropWhile_cons_split p xs e rest h
      exact ⟨h1, x :: pre, by rw [h2]; rfl⟩
    · rw [if_neg hx] at h
      injection h with h1 h2
      subst h1; subst h2
      exact ⟨by simpa using hx, [], rfl⟩

theorem sends_untouched (u : Nat) (l : List Ev) (h : ∀ e ∈ l, touches u e = false) :
    (Spec.sends l).any (·.1 == u) = false := by
  rw [List.any_eq_false]
  intro p hp
  unfold Spec.sends at hp
  obtain ⟨e, he, hpe⟩ := List.mem_filterMap.mp hp
  cases e with
  | send v c f =>
    simp only [Option.some.injEq] at hpe
    subst hpe
    have := h _ he
    simpa [touches] using this
  | _ => cases hpe

/-- nothing is written to a connection after the first failed write to it, or its close -/
theorem nothing_after_fail {s : State} (j : J s) (ha : Adj s.out) (u : Nat) :
    (Spec.sends ((s.out.dropWhile (fun e => !(e == .wfail u || e == .close u))).drop 1)).any (·.1 == u) = false := by
  cases hd : s.out.dropWhile (fun e => !(e == .wfail u || e == .close u)) with
  | nil => rfl
  | cons e after =>
    obtain ⟨hp, pre, hsplit⟩ := dropWhile_cons_split _ _ _ _ hd
    simp only [List.drop_succ_cons, List.drop_zero]
    apply sends_untouched
    have he : e = .wfail u ∨ e = .close u := by
      simp only [Bool.not_eq_false', Bool.or_eq_true, beq_iff_eq] at hp
      exact hp
    rcases he with rfl | rfl
    · have ha' : Adj (Ev.wfail u :: after) := adj_suffix pre _ (hsplit ▸ ha)
      obtain ⟨⟨l3, hl3⟩, _⟩ := ha'
      subst hl3
      exact untouched_after_close j (pre ++ [Ev.wfail u]) l3 u (by rw [hsplit]; simp)
    · intro x hx
      exact untouched_after_close j pre after u hsplit x (List.mem_cons_of_mem _ hx)

end Pyrtma.Mgr
