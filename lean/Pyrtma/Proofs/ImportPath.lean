import Pyrtma.Model.ImportPath
/-! Lemmas about path normalisation and the key look-up of `Model/ImportPath.lean`. -/
namespace Pyrtma.ImportPath
open Pyrtma.Registry

/-! ### `indexOf` -/

theorem indexOf_getElem : ∀ {l : List APath} {k : APath} {n : Nat}, indexOf k l = some n → l[n]? = some k
  | [], _, _, h => by simp [indexOf] at h
  | p :: ps, k, n, h => by
    simp only [indexOf] at h
    split at h
    · rename_i hp; cases h; simp [hp]
    · cases hi : indexOf k ps with
      | none => simp [hi] at h
      | some m =>
        simp only [hi, Option.map_some, Option.some.injEq] at h
        subst h
        simpa using indexOf_getElem hi

theorem indexOf_lt {l : List APath} {k : APath} {n : Nat} (h : indexOf k l = some n) : n < l.length := by
  have := indexOf_getElem h
  exact (List.getElem?_eq_some_iff.mp this).1

theorem indexOf_of_getElem : ∀ {l : List APath} {k : APath} {n : Nat}, l.Nodup → l[n]? = some k → indexOf k l = some n
  | [], _, _, _, h => by simp at h
  | p :: ps, k, 0, _, h => by simp at h; simp [indexOf, h]
  | p :: ps, k, n + 1, hn, h => by
    simp only [List.getElem?_cons_succ] at h
    have hmem : k ∈ ps := List.mem_of_getElem? h
    have hne : p ≠ k := by
      intro e; subst e
      exact (List.nodup_cons.mp hn).1 hmem
    simp [indexOf, hne, indexOf_of_getElem (List.nodup_cons.mp hn).2 h]

theorem indexOf_none_iff {l : List APath} {k : APath} : indexOf k l = none ↔ k ∉ l := by
  induction l with
  | nil => simp [indexOf]
  | cons p ps ih =>
    simp only [indexOf, List.mem_cons, not_or]
    split
    · rename_i hp; simp [hp]
    · rename_i hp
      rw [Option.map_eq_none_iff, ih]
      exact ⟨fun h => ⟨fun e => hp e.symm, h⟩, fun h => h.2⟩

/-! ### normalisation: what different spellings have in common -/

theorem normalize_append (acc : APath) (a b : List Seg) :
    normalize acc (a ++ b) = normalize (normalize acc a) b := by
  simp [normalize, List.foldl_append]

theorem normalize_nil (acc : APath) : normalize acc [] = acc := rfl

theorem normalize_cons (acc : APath) (s : Seg) (r : List Seg) : normalize acc (s :: r) = normalize (normStep acc s) r := rfl

/-- components that are not `..` are simply appended -/
theorem normalize_plain : ∀ (p : List Seg) (acc : APath), (∀ s ∈ p, s ≠ dotdot) → normalize acc p = acc ++ p
  | [], acc, _ => by simp [normalize]
  | s :: p, acc, h => by
    rw [normalize_cons]
    have hs : s ≠ dotdot := h s List.mem_cons_self
    simp only [normStep, hs, if_false]
    rw [normalize_plain p _ (fun x hx => h x (List.mem_cons_of_mem _ hx))]
    simp

/-- `x/..` cancels, whether or not `x` exists -/
theorem normalize_cancel (acc : APath) (x : Seg) (r : List Seg) (hx : x ≠ dotdot) :
    normalize acc (x :: dotdot :: r) = normalize acc r := by
  rw [normalize_cons, normalize_cons]
  simp [normStep, hx]

/-- … anywhere inside a path -/
theorem normalize_cancel_inside (acc : APath) (a : List Seg) (x : Seg) (r : List Seg) (hx : x ≠ dotdot) :
    normalize acc (a ++ x :: dotdot :: r) = normalize acc (a ++ r) := by
  rw [normalize_append, normalize_cancel _ _ _ hx, ← normalize_append]

theorem dropLast_iter_all : ∀ (n : Nat) (acc : APath), acc.length ≤ n → normalize acc (List.replicate n dotdot) = []
  | 0, acc, h => by
    have : acc = [] := List.eq_nil_of_length_eq_zero (by omega)
    simp [this, normalize]
  | n + 1, acc, h => by
    rw [List.replicate_succ, normalize_cons]
    simp only [normStep, if_true]
    exact dropLast_iter_all n _ (by simp; omega)

/-- climbing out of the cwd with enough `..` and descending again reaches the target from everywhere -/
theorem normalize_up_down (cwd target : APath) (n : Nat) (hn : cwd.length ≤ n) (ht : ∀ s ∈ target, s ≠ dotdot) :
    normalize cwd (List.replicate n dotdot ++ target) = target := by
  rw [normalize_append, dropLast_iter_all n cwd hn, normalize_plain target [] ht]
  simp

/-- an absolute text does not look at the cwd -/
theorem lexical_abs (cwd cwd' : APath) (p : PPath) (h : p.abs = true) : lexical cwd p = lexical cwd' p := by
  simp [lexical, h]

/-- an absolute normal path is its own resolution -/
theorem lexical_abs_plain (cwd k : APath) (hk : ∀ s ∈ k, s ≠ dotdot) : lexical cwd ⟨true, k⟩ = k := by
  simp [lexical, normalize_plain k [] hk]

/-- relative spelling = spelling out the (normal) cwd in front -/
theorem lexical_rel (cwd : APath) (parts : List Seg) (hc : ∀ s ∈ cwd, s ≠ dotdot) :
    lexical cwd ⟨false, parts⟩ = lexical [] ⟨true, cwd ++ parts⟩ := by
  simp only [lexical, Bool.false_eq_true, if_false, if_true]
  rw [normalize_append, normalize_plain cwd [] hc]; simp

/-! ### the look-up -/

theorem resolveImp_file {fs : FS} {cwd : APath} {t : List Char} {n : Nat} (h : resolveImp fs cwd t = .file n) :
    fs.files[n]? = some (fs.key cwd (parsePath t)) ∧ fs.isDirOS cwd (parsePath t) = false ∧
      goodSuffix (parsePath t) = true := by
  unfold resolveImp at h
  simp only at h
  split at h
  · cases h
  · rename_i hd
    split at h
    · cases h
    · rename_i hs
      split at h
      · rename_i m hm
        cases h
        exact ⟨indexOf_getElem hm, by simpa using hd, by simpa using hs⟩
      · cases h

/-- **Two spellings with the same key are the same import**: if two texts — in whatever files, directories, with
whatever `.`, `..`, repeated slashes, relative or absolute — resolve to the same key and both pass the directory and
suffix tests, the walk is handed the same file number. -/
theorem same_key_same_imp (fs : FS) (cwd₁ cwd₂ : APath) (t₁ t₂ : List Char)
    (hk : fs.key cwd₁ (parsePath t₁) = fs.key cwd₂ (parsePath t₂))
    (hd₁ : fs.isDirOS cwd₁ (parsePath t₁) = false) (hd₂ : fs.isDirOS cwd₂ (parsePath t₂) = false)
    (hs₁ : goodSuffix (parsePath t₁) = true) (hs₂ : goodSuffix (parsePath t₂) = true) :
    resolveImp fs cwd₁ t₁ = resolveImp fs cwd₂ t₂ := by
  simp [resolveImp, hd₁, hd₂, hs₁, hs₂, hk]

/-- distinct file numbers are distinct files: with pairwise distinct paths, two texts get the same number **iff**
they have the same key -/
theorem file_number_iff_key (fs : FS) (hnd : fs.files.Nodup) (cwd₁ cwd₂ : APath) (t₁ t₂ : List Char) (n₁ n₂ : Nat)
    (h₁ : resolveImp fs cwd₁ t₁ = .file n₁) (h₂ : resolveImp fs cwd₂ t₂ = .file n₂) :
    n₁ = n₂ ↔ fs.key cwd₁ (parsePath t₁) = fs.key cwd₂ (parsePath t₂) := by
  obtain ⟨g₁, _, _⟩ := resolveImp_file h₁
  obtain ⟨g₂, _, _⟩ := resolveImp_file h₂
  constructor
  · intro e; subst e; rw [g₁] at g₂; exact Option.some.inj g₂
  · intro e
    rw [e] at g₁
    have a := indexOf_of_getElem hnd g₁
    have b := indexOf_of_getElem hnd g₂
    rw [a] at b; exact Option.some.inj b

end Pyrtma.ImportPath
