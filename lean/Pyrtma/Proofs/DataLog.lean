import Pyrtma.Spec.DataLog
/-!
# Invariant of the recording/writer handshake (M10)

`Inv` is an *ownership* invariant over the product of the two program counters: it says who may touch
`wbuf` of which data set, ties the two events to the program counters, and carries the data equation
`written ++ wbuf ++ rbuf ++ (what the remaining operations will still accept) = accepted(all operations)`.
It holds initially and is preserved by every step of either thread, hence along every schedule.
-/
namespace Pyrtma.DataLog

/-! ### data-set level facts -/

@[simp] theorem setDs_same (f : Nat → Ds) (i : Nat) (d : Ds) : setDs f i d i = d := by simp [setDs]
theorem setDs_other (f : Nat → Ds) {i j : Nat} (d : Ds) (h : j ≠ i) : setDs f i d j = f j := by
  simp [setDs, h]

theorem written_eq (d : Ds) : d.written = d.closedFiles.flatten.flatten ++ d.cur.flatten := by
  simp [Ds.written, Ds.files, List.flatten_append, List.map_append]
  induction d.closedFiles with
  | nil => simp
  | cons a t ih => simp [ih]

@[simp] theorem written_stage (d : Ds) : d.stage.written = d.written := by
  simp [written_eq, Ds.stage]

@[simp] theorem written_flush (d : Ds) : d.flush.written = d.written ++ d.wbuf := by
  simp [written_eq, Ds.flush, List.flatten_append]

@[simp] theorem written_subdivide (d : Ds) : d.subdivide.written = d.written := by
  unfold Ds.subdivide
  split <;> simp [written_eq, List.flatten_append]

@[simp] theorem written_write (d : Ds) : d.write.written = d.written ++ d.wbuf := by
  simp [Ds.write]

@[simp] theorem written_finish (d : Ds) : d.finish.written = d.written ++ d.rbuf := by
  simp [written_eq, Ds.finish, Ds.finalize, Ds.stage, List.flatten_append]

@[simp] theorem written_append (d : Ds) (sel : Sel) (m : Option Msg) : (d.append sel m).written = d.written := by
  unfold Ds.append; repeat' split
  all_goals simp [written_eq]

@[simp] theorem written_arm (d : Ds) (iv el : Nat) : (d.arm iv el).written = d.written := by
  unfold Ds.arm; repeat' split
  all_goals simp [written_eq]

@[simp] theorem written_onUpdate (d : Ds) (c : Cfg) (i : Nat) (m : Option Msg) (el : Nat) :
    (d.onUpdate c i m el).written = d.written := by simp [Ds.onUpdate]

@[simp] theorem arm_wbuf (d : Ds) (iv el : Nat) : (d.arm iv el).wbuf = d.wbuf := by
  unfold Ds.arm; repeat' split
  all_goals rfl
@[simp] theorem arm_rbuf (d : Ds) (iv el : Nat) : (d.arm iv el).rbuf = d.rbuf := by
  unfold Ds.arm; repeat' split
  all_goals rfl
@[simp] theorem arm_closed (d : Ds) (iv el : Nat) : (d.arm iv el).closed = d.closed := by
  unfold Ds.arm; repeat' split
  all_goals rfl
@[simp] theorem append_wbuf (d : Ds) (sel : Sel) (m : Option Msg) : (d.append sel m).wbuf = d.wbuf := by
  unfold Ds.append; repeat' split
  all_goals rfl
@[simp] theorem append_closed (d : Ds) (sel : Sel) (m : Option Msg) : (d.append sel m).closed = d.closed := by
  unfold Ds.append; repeat' split
  all_goals rfl

/-- what `update` appends to `rbuf` of a data set -/
def taken (sel : Sel) : Option Msg → List Msg
  | some m => if sel.selects m.ty then [m] else []
  | none => []

theorem append_rbuf (d : Ds) (sel : Sel) (m : Option Msg) : (d.append sel m).rbuf = d.rbuf ++ taken sel m := by
  cases m with
  | none => simp [Ds.append, taken]
  | some m => by_cases h : sel.selects m.ty = true <;> simp [Ds.append, taken, h]

@[simp] theorem wbuf_onUpdate (d : Ds) (c : Cfg) (i : Nat) (m : Option Msg) (el : Nat) :
    (d.onUpdate c i m el).wbuf = d.wbuf := by simp [Ds.onUpdate]
@[simp] theorem closed_onUpdate (d : Ds) (c : Cfg) (i : Nat) (m : Option Msg) (el : Nat) :
    (d.onUpdate c i m el).closed = d.closed := by simp [Ds.onUpdate]
theorem rbuf_onUpdate (d : Ds) (c : Cfg) (i : Nat) (m : Option Msg) (el : Nat) :
    (d.onUpdate c i m el).rbuf = d.rbuf ++ taken (c.sel i) m := by simp [Ds.onUpdate, append_rbuf]

@[simp] theorem subdivide_wbuf (d : Ds) : d.subdivide.wbuf = d.wbuf := by unfold Ds.subdivide; split <;> rfl
@[simp] theorem subdivide_rbuf (d : Ds) : d.subdivide.rbuf = d.rbuf := by unfold Ds.subdivide; split <;> rfl
@[simp] theorem subdivide_closed (d : Ds) : d.subdivide.closed = d.closed := by unfold Ds.subdivide; split <;> rfl
@[simp] theorem write_wbuf (d : Ds) : d.write.wbuf = [] := by simp [Ds.write, Ds.flush]
@[simp] theorem write_rbuf (d : Ds) : d.write.rbuf = d.rbuf := by simp [Ds.write, Ds.flush]
@[simp] theorem write_closed (d : Ds) : d.write.closed = d.closed := by simp [Ds.write, Ds.flush]
@[simp] theorem stage_wbuf (d : Ds) : d.stage.wbuf = d.rbuf := rfl
@[simp] theorem stage_rbuf (d : Ds) : d.stage.rbuf = [] := rfl
@[simp] theorem stage_closed (d : Ds) : d.stage.closed = d.closed := rfl
@[simp] theorem finish_closed (d : Ds) : d.finish.closed = true := rfl
@[simp] theorem finish_rbuf (d : Ds) : d.finish.rbuf = [] := rfl

/-! ### the invariant -/

/-- program counters of `R` at which the writer may own the write buffers -/
def rsafe : RPc → Bool
  | .idle | .uIsSet | .sIsSet | .sWait => true
  | _ => false

/-- `R` is inside `stop()` (or past it) -/
def inStop : RPc → Bool
  | .sIsSet | .sWait | .sClrTD | .sClrFin | .sStage _ | .done => true
  | _ => false

/-- which data sets `stop()` has already finalised and closed -/
def closedOk : RPc → Nat → Bool
  | .sStage j, i => decide (i < j)
  | .done, _ => true
  | _, _ => false

/-- Ownership frontier: `wbuf` of data set `i` holds nothing (it was written and cleared, or never
staged).  While `R` stages (`uStage j`, `sStage j`) the sets from `j` on are still empty; while `W` writes
(`write k`) the sets below `k` are empty again. -/
def mustBeEmpty (s : State) (i : Nat) : Bool :=
  match s.rpc with
  | .sStage j => decide (j ≤ i)
  | .uStage j => decide (j ≤ i)
  | .done | .raised | .uClrFin | .uSetTD => false
  | _ =>
    match s.wpc with
    | .write k => decide (i < k)
    | .setFin | .clrTD => true
    | .wait => !s.td
    | .dead => true

/-- how the two events relate to the pair of program counters (order `finished.set(); to_disk.clear()`) -/
def compat (s : State) : Bool :=
  (match s.wpc with
    | .write _ | .setFin => s.td && !s.fin && rsafe s.rpc
    | .clrTD => (!rsafe s.rpc || (s.td && s.fin)) &&
        (match s.rpc with | .uStage _ | .uClrFin | .uSetTD => false | _ => true)
    | .wait => if s.td then !s.fin && rsafe s.rpc
               else (!(s.rpc == .uSetTD) || !s.fin) && (!(s.rpc == .sWait) || s.fin)
    | .dead => false) && !(s.rpc == .raised)

def dataInv (c : Cfg) (all : List RecOp) (s : State) (i : Nat) : Prop :=
  (s.ds i).written ++ (if (s.ds i).closed then [] else (s.ds i).wbuf) ++ (s.ds i).rbuf ++
    accepted (c.sel i) s.paused s.ops = accepted (c.sel i) false all

structure Inv (c : Cfg) (all : List RecOp) (s : State) : Prop where
  compat : compat s = true
  empty : ∀ i, i < c.n → mustBeEmpty s i = true → (s.ds i).wbuf = []
  closedIff : ∀ i, i < c.n → (s.ds i).closed = closedOk s.rpc i
  rbufNil : ∀ i, i < c.n → (s.ds i).closed = true → (s.ds i).rbuf = []
  opsNil : inStop s.rpc = true → s.ops = []
  wbound : ∀ k, s.wpc = .write k → k < c.n
  data : ∀ i, i < c.n → dataInv c all s i

theorem inv_init (c : Cfg) (ops : List RecOp) : Inv c ops (init c ops) := by
  refine ⟨by simp [compat, init], ?_, ?_, ?_, ?_, ?_, ?_⟩
  · intro i _ _; simp [init]
  · intro i _; simp [init, closedOk]
  · intro i _ h; simp [init] at h
  · intro h; simp [init, inStop] at h
  · intro k h; simp [init] at h
  · intro i _; simp [dataInv, init, written_eq]

/-! ### preservation: the writer -/

theorem stepW_inv (c : Cfg) (all : List RecOp) (s : State) (hf : c.finFirst = true)
    (h : Inv c all s) : Inv c all (stepW c s) := by
  obtain ⟨hc, he, hcl, hrb, hops, hwb, hd⟩ := h
  unfold stepW
  cases hw : s.wpc with
  | wait =>
    simp only
    split
    · rename_i htd
      refine ⟨?_, ?_, hcl, hrb, hops, ?_, hd⟩
      · cases hr : s.rpc <;> grind [compat, rsafe, firstWrite, afterWrites]
      · intro i hi hm
        apply he i hi
        cases hr : s.rpc <;> grind [mustBeEmpty, compat, rsafe, firstWrite, afterWrites]
      · grind [firstWrite, afterWrites]
    · exact ⟨hc, he, hcl, hrb, hops, hwb, hd⟩
  | write k =>
    simp only
    have hsafe : rsafe s.rpc = true := by grind [compat]
    have hk : k < c.n := hwb k hw
    have hnc : (s.ds k).closed = false := by
      rw [hcl k hk]; cases hr : s.rpc <;> simp_all [rsafe, closedOk]
    simp only [hnc, Bool.false_eq_true, ↓reduceIte]
    refine ⟨?_, ?_, ?_, ?_, hops, ?_, ?_⟩
    · cases hr : s.rpc <;> grind [compat, rsafe, nextWrite, afterWrites]
    · intro i hi hm
      by_cases hik : i = k
      · subst hik; simp
      · simp only [setDs_other _ _ hik]
        apply he i hi
        cases hr : s.rpc <;> grind [mustBeEmpty, compat, rsafe, nextWrite, afterWrites]
    · intro i hi
      by_cases hik : i = k
      · subst hik; simp [hcl i hi]
      · simp [setDs_other _ _ hik, hcl i hi]
    · intro i hi
      by_cases hik : i = k
      · subst hik; simp; exact hrb i hi
      · simp only [setDs_other _ _ hik]; exact hrb i hi
    · grind [nextWrite, afterWrites]
    · intro i hi
      have h1 := hd i hi
      by_cases hik : i = k
      · subst hik
        simp only [dataInv, hnc] at h1
        simp [dataInv, hnc]
        simpa using h1
      · simpa [dataInv, setDs_other _ _ hik] using h1
  | setFin =>
    simp only [hf, ↓reduceIte]
    refine ⟨?_, ?_, hcl, hrb, hops, ?_, hd⟩
    · cases hr : s.rpc <;> grind [compat, rsafe]
    · intro i hi hm
      apply he i hi
      cases hr : s.rpc <;> grind [mustBeEmpty, compat, rsafe]
    · simp
  | clrTD =>
    simp only [hf, ↓reduceIte]
    refine ⟨?_, ?_, hcl, hrb, hops, ?_, hd⟩
    · cases hr : s.rpc <;> grind [compat, rsafe]
    · intro i hi hm
      apply he i hi
      cases hr : s.rpc <;> grind [mustBeEmpty, compat, rsafe]
    · simp
  | dead => simp [compat, hw] at hc


/-! ### preservation: the recording thread -/

theorem accepted_update (sel : Sel) (p : Bool) (d : Nat) (m : Msg) (r : List RecOp) :
    accepted sel p (.update d m :: r) = (if p then [] else taken sel (some m)) ++ accepted sel p r := by
  cases p <;> simp [accepted, taken]

theorem Inv.of_upd {c : Cfg} {all : List RecOp} {s s' : State} (h : Inv c all s) (hr : s.rpc = .idle)
    (h1 : s'.rpc = .idle ∨ s'.rpc = .uIsSet) (h2 : s'.wpc = s.wpc) (h3 : s'.td = s.td) (h4 : s'.fin = s.fin)
    (h5 : ∀ i, i < c.n → (s'.ds i).wbuf = (s.ds i).wbuf ∧ (s'.ds i).closed = (s.ds i).closed)
    (h7 : ∀ i, i < c.n → dataInv c all s' i) : Inv c all s' := by
  obtain ⟨hc, he, hcl, hrb, hops, hwb, hd⟩ := h
  refine ⟨?_, ?_, ?_, ?_, ?_, ?_, h7⟩
  · unfold DataLog.compat at hc ⊢; rw [h2, h3, h4]; rw [hr] at hc
    rcases h1 with h1 | h1 <;> rw [h1] <;> cases hw : s.wpc <;> simp_all [rsafe]
  · intro i hi hm; rw [(h5 i hi).1]; apply he i hi; unfold mustBeEmpty at hm ⊢; rw [h2, h3] at hm; rw [hr]
    rcases h1 with h1 | h1 <;> rw [h1] at hm <;> exact hm
  · intro i hi; rw [(h5 i hi).2, hcl i hi, hr]; rcases h1 with h1 | h1 <;> rw [h1] <;> rfl
  · intro i hi hcl'; rw [(h5 i hi).2, hcl i hi, hr] at hcl'; simp [closedOk] at hcl'
  · intro hs; rcases h1 with h1 | h1 <;> rw [h1] at hs <;> simp [inStop] at hs
  · rw [h2]; exact hwb

theorem upd_inv (c : Cfg) (all : List RecOp) (s : State) (op : RecOp) (rest : List RecOp) (m : Option Msg)
    (h : Inv c all s) (hr : s.rpc = .idle) (ho : s.ops = op :: rest)
    (hacc : ∀ sel p, accepted sel p (op :: rest) = (if p then [] else taken sel m) ++ accepted sel p rest) :
    Inv c all (stepR.upd c { s with rpc := .idle, ops := rest, now := s.now + op.dt } m) := by
  have hd := h.data
  have hc := h.compat
  unfold stepR.upd
  simp only
  split
  · rename_i hp
    refine h.of_upd hr (Or.inl rfl) rfl rfl rfl (fun i hi => ⟨rfl, rfl⟩) ?_
    intro i hi; have := hd i hi; simp_all [dataInv]
  · rename_i hp
    split
    · rename_i hdead; simp [DataLog.compat, hdead] at hc
    · have key : ∀ i, i < c.n → dataInv c all
          { s with ops := rest, now := s.now + op.dt,
                   el := State.elapsed { s with rpc := .idle, ops := rest, now := s.now + op.dt },
                   ds := fun i => if i < c.n then (s.ds i).onUpdate c i m
                     (State.elapsed { s with rpc := .idle, ops := rest, now := s.now + op.dt }) else s.ds i } i := by
        intro i hi; have := hd i hi
        simp_all [dataInv, rbuf_onUpdate]
      split
      · refine h.of_upd hr (Or.inr rfl) rfl rfl rfl (fun i hi => by simp [hi]) ?_
        intro i hi; simpa [dataInv] using key i hi
      · refine h.of_upd hr (Or.inl rfl) rfl rfl rfl (fun i hi => by simp [hi]) ?_
        intro i hi; simpa [dataInv] using key i hi

/-- the protocol part of the invariant only looks at the program counters and the two events -/
theorem Inv.of_same_proto {c : Cfg} {all : List RecOp} {s s' : State} (h : Inv c all s)
    (h1 : s'.rpc = s.rpc) (h2 : s'.wpc = s.wpc) (h3 : s'.td = s.td) (h4 : s'.fin = s.fin)
    (h5 : s'.ds = s.ds) (h6 : inStop s.rpc = true → s'.ops = [])
    (h7 : ∀ i, i < c.n → dataInv c all s' i) : Inv c all s' := by
  obtain ⟨hc, he, hcl, hrb, hops, hwb, hd⟩ := h
  refine ⟨?_, ?_, ?_, ?_, ?_, ?_, h7⟩
  · unfold DataLog.compat at hc ⊢; rw [h1, h2, h3, h4]; exact hc
  · intro i hi hm; rw [h5]; apply he i hi; unfold mustBeEmpty at hm ⊢; rw [h1, h2, h3] at hm; exact hm
  · intro i hi; rw [h5, h1]; exact hcl i hi
  · intro i hi; rw [h5]; exact hrb i hi
  · rw [h1]; exact h6
  · rw [h2]; exact hwb

theorem stepR_idle_inv (c : Cfg) (all : List RecOp) (s : State)
    (h : Inv c all s) (hr : s.rpc = .idle) : Inv c all (stepR c s) := by
  have h0 := h
  obtain ⟨hc, he, hcl, hrb, hops, hwb, hd⟩ := h
  unfold stepR
  simp only [hr]
  cases ho : s.ops with
  | nil =>
    simp only
    refine ⟨?_, ?_, ?_, hrb, ?_, hwb, ?_⟩
    · cases hw : s.wpc <;> grind [compat, rsafe]
    · intro i hi hm; apply he i hi; cases hw : s.wpc <;> grind [mustBeEmpty]
    · intro i hi; simp [hcl i hi, hr, closedOk]
    · intro _; rfl
    · intro i hi; simpa [dataInv, ho] using hd i hi
  | cons op rest =>
    cases op with
    | pause d =>
      simp only
      refine h0.of_same_proto hr.symm rfl rfl rfl rfl (by simp [hr, inStop]) ?_
      intro i hi; have := hd i hi; simp_all [dataInv, accepted]
    | resume d =>
      simp only
      refine h0.of_same_proto hr.symm rfl rfl rfl rfl (by simp [hr, inStop]) ?_
      intro i hi; have := hd i hi; simp_all [dataInv, accepted]
    | update d m =>
      simp only
      exact upd_inv c all s _ rest (some m) h0 hr ho (fun sel p => accepted_update sel p d m rest)
    | tick d =>
      simp only
      exact upd_inv c all s _ rest none h0 hr ho (fun sel p => by cases p <;> simp [accepted, taken])


/-- steps of `R` that only move its program counter and the events -/
theorem Inv.of_flags {c : Cfg} {all : List RecOp} {s s' : State} (h : Inv c all s)
    (hw : s'.wpc = s.wpc) (hds : s'.ds = s.ds) (hops : s'.ops = s.ops) (hp : s'.paused = s.paused)
    (hc : DataLog.compat s' = true)
    (he : ∀ i, i < c.n → mustBeEmpty s' i = true → mustBeEmpty s i = true)
    (hcl : ∀ i, i < c.n → closedOk s'.rpc i = closedOk s.rpc i)
    (hst : inStop s'.rpc = true → inStop s.rpc = true) : Inv c all s' := by
  refine ⟨hc, ?_, ?_, ?_, ?_, ?_, ?_⟩
  · intro i hi hm; rw [hds]; exact h.empty i hi (he i hi hm)
  · intro i hi; rw [hds, hcl i hi]; exact h.closedIff i hi
  · intro i hi; rw [hds]; exact h.rbufNil i hi
  · intro hs; rw [hops]; exact h.opsNil (hst hs)
  · rw [hw]; exact h.wbound
  · intro i hi; have := h.data i hi; unfold dataInv at this ⊢; rw [hds, hops, hp]; exact this

theorem stepR_uIsSet_inv (c : Cfg) (all : List RecOp) (s : State)
    (h : Inv c all s) (hr : s.rpc = .uIsSet) : Inv c all (stepR c s) := by
  have hc := h.compat
  unfold stepR; simp only [hr]
  split
  · refine h.of_flags rfl rfl rfl rfl ?_ ?_ ?_ ?_
    · cases hw : s.wpc <;> grind [compat, rsafe]
    · intro i hi; cases hw : s.wpc <;> grind [mustBeEmpty]
    · intro i _; simp [hr, closedOk]
    · simp [inStop]
  · refine h.of_flags rfl rfl rfl rfl ?_ ?_ ?_ ?_
    · cases hw : s.wpc <;> grind [compat, rsafe, firstUStage]
    · intro i hi; cases hw : s.wpc <;> grind [mustBeEmpty, compat, rsafe, firstUStage]
    · intro i _; unfold firstUStage; split <;> simp [hr, closedOk]
    · unfold firstUStage; split <;> simp [inStop]

theorem stepR_uClrFin_inv (c : Cfg) (all : List RecOp) (s : State) (h : Inv c all s)
    (hr : s.rpc = .uClrFin) : Inv c all (stepR c s) := by
  have hc := h.compat
  unfold stepR; simp only [hr]
  refine h.of_flags rfl rfl rfl rfl ?_ ?_ ?_ ?_
  · cases hw : s.wpc <;> grind [compat, rsafe]
  · intro i hi; cases hw : s.wpc <;> grind [mustBeEmpty, compat, rsafe]
  · intro i _; simp [hr, closedOk]
  · simp [inStop]

theorem stepR_uSetTD_inv (c : Cfg) (all : List RecOp) (s : State) (h : Inv c all s)
    (hr : s.rpc = .uSetTD) : Inv c all (stepR c s) := by
  have hc := h.compat
  unfold stepR; simp only [hr]
  refine h.of_flags rfl rfl rfl rfl ?_ ?_ ?_ ?_
  · cases hw : s.wpc <;> grind [compat, rsafe]
  · intro i hi; cases hw : s.wpc <;> grind [mustBeEmpty, compat, rsafe]
  · intro i _; simp [hr, closedOk]
  · simp [inStop]

theorem stepR_sIsSet_inv (c : Cfg) (all : List RecOp) (s : State) (h : Inv c all s)
    (hr : s.rpc = .sIsSet) : Inv c all (stepR c s) := by
  have hc := h.compat
  unfold stepR; simp only [hr]
  by_cases htd : s.td = true <;> simp only [htd, ↓reduceIte, Bool.false_eq_true]
  all_goals refine h.of_flags rfl rfl rfl rfl ?_ ?_ ?_ ?_
  · cases hw : s.wpc <;> grind [compat, rsafe]
  · intro i hi; cases hw : s.wpc <;> grind [mustBeEmpty, compat, rsafe]
  · intro i _; simp [hr, closedOk]
  · simp [inStop, hr]
  · cases hw : s.wpc <;> grind [compat, rsafe]
  · intro i hi; cases hw : s.wpc <;> grind [mustBeEmpty, compat, rsafe]
  · intro i _; simp [hr, closedOk]
  · simp [inStop, hr]

theorem stepR_sWait_inv (c : Cfg) (all : List RecOp) (s : State) (h : Inv c all s)
    (hr : s.rpc = .sWait) : Inv c all (stepR c s) := by
  have hc := h.compat
  unfold stepR; simp only [hr]
  by_cases hfin : s.fin = true <;> simp only [hfin, ↓reduceIte, Bool.false_eq_true]
  all_goals refine h.of_flags rfl rfl rfl rfl ?_ ?_ ?_ ?_
  · cases hw : s.wpc <;> grind [compat, rsafe]
  · intro i hi; cases hw : s.wpc <;> grind [mustBeEmpty, compat, rsafe]
  · intro i _; simp [hr, closedOk]
  · simp [inStop, hr]
  · cases hw : s.wpc <;> grind [compat, rsafe]
  · intro i hi; cases hw : s.wpc <;> grind [mustBeEmpty, compat, rsafe]
  · intro i _; simp [hr, closedOk]
  · simp [inStop, hr]

theorem stepR_sClrTD_inv (c : Cfg) (all : List RecOp) (s : State) (h : Inv c all s)
    (hr : s.rpc = .sClrTD) : Inv c all (stepR c s) := by
  have hc := h.compat
  unfold stepR; simp only [hr]
  refine h.of_flags rfl rfl rfl rfl ?_ ?_ ?_ ?_
  · cases hw : s.wpc <;> grind [compat, rsafe]
  · intro i hi; cases hw : s.wpc <;> grind [mustBeEmpty, compat, rsafe]
  · intro i _; simp [hr, closedOk]
  · simp [inStop, hr]

theorem stepR_sClrFin_inv (c : Cfg) (all : List RecOp) (s : State) (h : Inv c all s)
    (hr : s.rpc = .sClrFin) : Inv c all (stepR c s) := by
  have hc := h.compat
  unfold stepR; simp only [hr]
  refine h.of_flags rfl rfl rfl rfl ?_ ?_ ?_ ?_
  · cases hw : s.wpc <;> grind [compat, rsafe, firstSStage]
  · intro i hi; cases hw : s.wpc <;> grind [mustBeEmpty, compat, rsafe, firstSStage]
  · intro i hi; unfold firstSStage; split
    · simp [hr, closedOk]
    · omega
  · simp [inStop, hr]


theorem stepR_uStage_inv (c : Cfg) (all : List RecOp) (s : State) (j : Nat) (h : Inv c all s)
    (hr : s.rpc = .uStage j) : Inv c all (stepR c s) := by
  obtain ⟨hc, he, hcl, hrb, hops, hwb, hd⟩ := h
  unfold stepR; simp only [hr]
  have hnc : ∀ i, i < c.n → (s.ds i).closed = false := by intro i hi; rw [hcl i hi, hr]; rfl
  refine ⟨?_, ?_, ?_, ?_, ?_, hwb, ?_⟩
  · cases hw : s.wpc <;> grind [compat, rsafe, nextUStage]
  · intro i hi hm
    by_cases hij : i = j
    · subst hij; grind [mustBeEmpty, nextUStage]
    · simp only [setDs_other _ _ hij]; apply he i hi
      grind [mustBeEmpty, nextUStage]
  · intro i hi
    have : closedOk (nextUStage c j) i = false := by unfold nextUStage; split <;> rfl
    by_cases hij : i = j
    · subst hij; simp [this, hnc i hi]
    · simp [setDs_other _ _ hij, this, hnc i hi]
  · intro i hi hcl'
    by_cases hij : i = j
    · subst hij; simp
    · simp only [setDs_other _ _ hij] at hcl' ⊢; exact hrb i hi hcl'
  · unfold nextUStage; split <;> simp [inStop]
  · intro i hi
    have h1 := hd i hi
    by_cases hij : i = j
    · subst hij
      have hemp : (s.ds i).wbuf = [] := he i hi (by simp [mustBeEmpty, hr])
      simp only [dataInv, hnc i hi, hemp] at h1
      simp [dataInv, hnc i hi]
      simpa using h1
    · simpa [dataInv, setDs_other _ _ hij] using h1

theorem stepR_sStage_inv (c : Cfg) (all : List RecOp) (s : State) (j : Nat) (h : Inv c all s)
    (hr : s.rpc = .sStage j) : Inv c all (stepR c s) := by
  obtain ⟨hc, he, hcl, hrb, hops, hwb, hd⟩ := h
  unfold stepR; simp only [hr]
  refine ⟨?_, ?_, ?_, ?_, ?_, hwb, ?_⟩
  · cases hw : s.wpc <;> grind [compat, rsafe, nextSStage]
  · intro i hi hm
    by_cases hij : i = j
    · subst hij; grind [mustBeEmpty, nextSStage]
    · simp only [setDs_other _ _ hij]; apply he i hi
      grind [mustBeEmpty, nextSStage]
  · intro i hi
    by_cases hij : i = j
    · subst hij; unfold nextSStage; split <;> simp [closedOk]
    · simp only [setDs_other _ _ hij]; rw [hcl i hi, hr]
      unfold nextSStage; split <;> simp [closedOk] <;> omega
  · intro i hi hcl'
    by_cases hij : i = j
    · subst hij; simp
    · simp only [setDs_other _ _ hij] at hcl' ⊢; exact hrb i hi hcl'
  · intro _; exact hops (by simp [hr, inStop])
  · intro i hi
    have h1 := hd i hi
    by_cases hij : i = j
    · subst hij
      have hemp : (s.ds i).wbuf = [] := he i hi (by simp [mustBeEmpty, hr])
      have hnc : (s.ds i).closed = false := by rw [hcl i hi, hr]; simp [closedOk]
      simp only [dataInv, hnc, hemp] at h1
      simp [dataInv]
      simpa using h1
    · simpa [dataInv, setDs_other _ _ hij] using h1


theorem stepR_inv (c : Cfg) (all : List RecOp) (s : State) (h : Inv c all s) : Inv c all (stepR c s) := by
  cases hr : s.rpc with
  | idle => exact stepR_idle_inv c all s h hr
  | uIsSet => exact stepR_uIsSet_inv c all s h hr
  | uStage j => exact stepR_uStage_inv c all s j h hr
  | uClrFin => exact stepR_uClrFin_inv c all s h hr
  | uSetTD => exact stepR_uSetTD_inv c all s h hr
  | sIsSet => exact stepR_sIsSet_inv c all s h hr
  | sWait => exact stepR_sWait_inv c all s h hr
  | sClrTD => exact stepR_sClrTD_inv c all s h hr
  | sClrFin => exact stepR_sClrFin_inv c all s h hr
  | sStage j => exact stepR_sStage_inv c all s j h hr
  | done => unfold stepR; simp only [hr]; exact h
  | raised => unfold stepR; simp only [hr]; exact h

/-! ### along every schedule -/

theorem step_inv (c : Cfg) (all : List RecOp) (s : State) (t : Tid) (hf : c.finFirst = true)
    (h : Inv c all s) : Inv c all (step c s t) := by
  unfold step
  split
  · exact h
  · cases t
    · exact stepR_inv c all s h
    · exact stepW_inv c all s hf h

theorem foldl_inv (c : Cfg) (all : List RecOp) (hf : c.finFirst = true) (sched : List Tid) :
    ∀ s, Inv c all s → Inv c all (sched.foldl (step c) s) := by
  induction sched with
  | nil => intro s h; exact h
  | cons t ts ih => intro s h; exact ih _ (step_inv c all s t hf h)

theorem run_inv (c : Cfg) (ops : List RecOp) (hf : c.finFirst = true) (sched : List Tid) :
    Inv c ops (run c ops sched) := foldl_inv c ops hf sched _ (inv_init c ops)

/-- what the invariant says once `stop()` has returned -/
theorem Inv.at_done {c : Cfg} {all : List RecOp} {s : State} (h : Inv c all s) (hd : s.rpc = .done)
    (i : Nat) (hi : i < c.n) : (s.ds i).written = accepted (c.sel i) false all := by
  have hcl : (s.ds i).closed = true := by rw [h.closedIff i hi, hd]; rfl
  have h1 := h.data i hi
  have h2 := h.opsNil (by simp [hd, inStop])
  simp only [dataInv, hcl, h.rbufNil i hi hcl, h2] at h1
  simpa [accepted] using h1

end Pyrtma.DataLog
