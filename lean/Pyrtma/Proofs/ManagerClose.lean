import Pyrtma.Proofs.Manager
/-! Departures in the manager model M1, globally: in every reachable state every connection has been closed at most once,
    only after it was accepted, and nothing was written to it (or attempted on it) after its close.
    No side condition: the invariant needs neither the subscription-index invariant nor fuel adequacy. -/
namespace Pyrtma.Mgr

def isClose (u : Nat) : Ev → Bool
  | .close v => v == u
  | _ => false

/-- the event is a write, a partial write or a failed write on connection `u` -/
def touches (u : Nat) : Ev → Bool
  | .send v _ _ => v == u
  | .partialW v => v == u
  | .wfail v => v == u
  | _ => false

def closeCnt (evs : List Ev) (u : Nat) : Nat := evs.countP (isClose u)

/-- `u` is in the table with an open socket -/
def isOpen (s : State) (u : Nat) : Bool := s.mods.any (fun m => m.uid == u && !m.closed)

/-- potential of connection `u`: closes so far + 1 while it is open + 1 while it has not been accepted yet -/
def phi (s : State) (u : Nat) : Nat :=
  closeCnt s.out u + (if isOpen s u then 1 else 0) + (if s.nextUid < u then 1 else 0)

/-- newest-first scan of the log: an event that touches `u` has no close of `u` before it -/
def nsRev (u : Nat) : List Ev → Prop
  | [] => True
  | e :: older => (touches u e = true → older.countP (isClose u) = 0) ∧ nsRev u older

def NS (evs : List Ev) (u : Nat) : Prop := nsRev u evs.reverse

theorem NS_snoc (evs : List Ev) (e : Ev) (u : Nat) :
    NS (evs ++ [e]) u ↔ (touches u e = true → closeCnt evs u = 0) ∧ NS evs u := by
  unfold NS closeCnt
  simp only [List.reverse_append, List.reverse_cons, List.reverse_nil, List.nil_append, List.cons_append, nsRev,
    List.countP_reverse]

theorem closeCnt_snoc (evs : List Ev) (e : Ev) (u : Nat) :
    closeCnt (evs ++ [e]) u = closeCnt evs u + (if isClose u e then 1 else 0) := by
  unfold closeCnt; rw [List.countP_append]; simp [List.countP_cons]

/-- the readable form of `NS` -/
theorem NS_split {evs : List Ev} {u : Nat} (h : NS evs u) (a b : List Ev) (he : evs = a ++ b)
    (hc : 0 < closeCnt a u) : ∀ e ∈ b, touches u e = false := by
  have key : ∀ (b' a' : List Ev), nsRev u (b' ++ a') → 0 < a'.countP (isClose u) → ∀ e ∈ b', touches u e = false := by
    intro b'
    induction b' with
    | nil => intro _ _ _ e he; cases he
    | cons x b'' ih =>
      intro a' hns hpos e hmem
      simp only [List.cons_append, nsRev] at hns
      cases hmem with
      | head =>
        cases ht : touches u x with
        | false => rfl
        | true =>
          have := hns.1 ht
          rw [List.countP_append] at this; omega
      | tail _ hm => exact ih a' hns.2 hpos e hm
  subst he
  unfold NS at h
  rw [List.reverse_append] at h
  intro e hmem
  exact key b.reverse a.reverse h (by unfold closeCnt at hc; rw [List.countP_reverse]; exact hc) e (by simpa using hmem)

/-- the invariant -/
structure J (s : State) : Prop where
  phi : ∀ u, phi s u ≤ 1
  ns : ∀ u, NS s.out u

/-- same log, same uid counter, no socket re-opened -/
theorem J_mono {s s' : State} (h : J s) (ho : s'.out = s.out) (hn : s'.nextUid = s.nextUid)
    (hop : ∀ v, isOpen s' v = true → isOpen s v = true) : J s' := by
  refine ⟨fun u => ?_, fun u => by rw [ho]; exact h.ns u⟩
  have := h.phi u
  unfold Mgr.phi at this ⊢
  rw [ho, hn]
  cases h1 : isOpen s' u with
  | false => simp only [Bool.false_eq_true, if_false]; split at this <;> omega
  | true => rw [hop u h1] at this; simpa using this

theorem J_same {s s' : State} (h : J s) (hm : s'.mods = s.mods) (ho : s'.out = s.out) (hn : s'.nextUid = s.nextUid) : J s' :=
  J_mono h ho hn (fun v hv => by unfold isOpen at hv ⊢; rw [← hm]; exact hv)

theorem isOpen_upd (s : State) (u v : Nat) (f : Module → Module) (hu : ∀ m, (f m).uid = m.uid)
    (hc : ∀ m, (f m).closed = m.closed) : isOpen (s.upd u f) v = isOpen s v := by
  unfold isOpen State.upd
  simp only [List.any_map]
  congr 1; funext m
  simp only [Function.comp]
  split <;> simp [hu, hc]

theorem J_upd {s : State} (h : J s) (u : Nat) (f : Module → Module) (hu : ∀ m, (f m).uid = m.uid)
    (hc : ∀ m, (f m).closed = m.closed) : J (s.upd u f) :=
  J_mono h rfl rfl (fun v hv => by rw [isOpen_upd s u v f hu hc] at hv; exact hv)

theorem J_crash {s : State} (h : J s) (w : String) : J (s.crash w) := by
  unfold State.crash; split
  · exact h
  · exact J_same h rfl rfl rfl

theorem J_count {cfg : Cfg} {s : State} (h : J s) (t : Int) : J (countMsg cfg s t) := by
  unfold countMsg; split
  · exact J_same h rfl rfl rfl
  · exact J_same h rfl rfl rfl

/-- an event that is no close and touches at most `u`, which is open -/
theorem J_emit {s : State} (h : J s) (e : Ev) (hc : ∀ v, isClose v e = false)
    (ht : ∀ v, touches v e = true → isOpen s v = true) : J (s.emit e) := by
  refine ⟨fun u => ?_, fun u => ?_⟩
  · have := h.phi u
    unfold Mgr.phi at this ⊢
    show closeCnt (s.out ++ [e]) u + (if isOpen s u then 1 else 0) + (if s.nextUid < u then 1 else 0) ≤ 1
    rw [closeCnt_snoc, hc u]; simpa using this
  · show NS (s.out ++ [e]) u
    rw [NS_snoc]
    refine ⟨fun htu => ?_, h.ns u⟩
    have := h.phi u
    unfold Mgr.phi at this
    rw [ht u htu] at this
    simp at this; omega

theorem isOpen_of_find {s : State} {u : Nat} {m : Module} (hm : s.find u = some m) (hc : m.closed = false) :
    isOpen s u = true := by
  unfold isOpen State.find at *
  rw [List.any_eq_true]
  exact ⟨m, List.mem_of_find?_eq_some hm, by have := List.find?_some hm; simp_all⟩

theorem sendRaw_J {s : State} (h : J s) (u : Nat) (f : Frame) : J (sendRaw s u f).1 := by
  unfold sendRaw
  cases hm : s.find u with
  | none => exact J_crash h _
  | some m =>
    simp only
    cases hcl : m.closed with
    | true => simp only [if_true]; exact J_crash h _
    | false =>
      simp only [Bool.false_eq_true, if_false]
      have h1 : J (s.upd u fun m => { m with msgCount := m.msgCount + 1 }) := J_upd h u _ (by intro _; rfl) (by intro _; rfl)
      have ho : isOpen (s.upd u fun m => { m with msgCount := m.msgCount + 1 }) u = true := by
        rw [isOpen_upd s u u (fun m => { m with msgCount := m.msgCount + 1 }) (by intro _; rfl) (by intro _; rfl)]
        exact isOpen_of_find hm hcl
      have hfo : failOf (s.upd u fun m => { m with msgCount := m.msgCount + 1 }) u = failOf s u := rfl
      rw [hfo]
      have only : ∀ (v : Nat), (u == v) = true → isOpen (s.upd u fun m => { m with msgCount := m.msgCount + 1 }) v = true := by
        intro v hv; have : u = v := by simpa using hv
        subst this; exact ho
      cases failOf s u with
      | none =>
        exact J_emit h1 _ (fun _ => rfl) (fun v hv => only v hv)
      | some x =>
        cases x with
        | hdr => exact J_emit h1 _ (fun _ => rfl) (fun v hv => only v hv)
        | pay =>
          have h2 := J_emit h1 (.partialW u) (fun _ => rfl) (fun v hv => only v hv)
          exact J_emit h2 _ (fun _ => rfl) (fun v hv => only v hv)

theorem isOpen_closed_upd (s : State) (u v : Nat) :
    isOpen (s.upd u (fun m => { m with closed := true, connected := false })) v = (v != u && isOpen s v) := by
  unfold isOpen State.upd
  simp only [List.any_map]
  induction s.mods with
  | nil => simp
  | cons a l ih =>
    simp only [List.any_cons, Function.comp] at ih ⊢
    rw [ih]
    by_cases hau : a.uid = u
    · by_cases hvu : v = u
      · subst hau hvu; simp
      · have h1 : (a.uid == v) = false := by simp; omega
        have h2 : (a.uid == u) = true := by simp [hau]
        have h3 : (v != u) = true := by simpa using hvu
        simp [h1, h2, h3]
    · have h1 : (a.uid == u) = false := by simpa using hau
      simp only [h1, Bool.false_eq_true, if_false]
      by_cases hvu : v = u
      · subst hvu; simp [h1]
      · have h3 : (v != u) = true := by simpa using hvu
        simp [h3]

theorem removePrep_J {s : State} (h : J s) (u : Nat) (m : Module) (hm : s.find u = some m) : J (removePrep s u m) := by
  unfold removePrep
  have h0 : J { s with idx := m.subs.foldl (fun i t => idxDiscard i t u) s.idx, loggers := s.loggers.filter (· != u) } :=
    J_same h rfl rfl rfl
  cases hcl : m.closed with
  | true =>
    simp only [if_true]
    exact J_mono h0 rfl rfl (fun v hv => by
      rw [isOpen_closed_upd] at hv
      simp only [Bool.and_eq_true] at hv; exact hv.2)
  | false =>
    simp only [Bool.false_eq_true, if_false]
    have hopen : isOpen s u = true := isOpen_of_find hm hcl
    refine ⟨fun v => ?_, fun v => ?_⟩
    · have := h.phi v
      unfold Mgr.phi at this ⊢
      rw [isOpen_closed_upd]
      show closeCnt (s.out ++ [.close u]) v + _ + (if s.nextUid < v then 1 else 0) ≤ 1
      rw [closeCnt_snoc]
      by_cases hvu : v = u
      · subst hvu
        rw [hopen] at this
        simp [isClose] at this ⊢; omega
      · have h1 : isClose v (.close u) = false := by simp [isClose]; omega
        have h2 : (v != u) = true := by simpa using hvu
        rw [h1, h2]
        have : isOpen { s with idx := m.subs.foldl (fun i t => idxDiscard i t u) s.idx,
                               loggers := s.loggers.filter (· != u) } v = isOpen s v := rfl
        simpa using ‹closeCnt s.out v + _ + _ ≤ 1›
    · show NS (s.out ++ [.close u]) v
      rw [NS_snoc]
      exact ⟨fun ht => by simp [touches] at ht, h.ns v⟩

theorem dropMod_J {s : State} (h : J s) (u : Nat) : J { s with mods := s.mods.filter (·.uid != u) } :=
  J_mono h rfl rfl (fun v hv => by
    unfold isOpen at hv ⊢
    rw [List.any_eq_true] at hv ⊢
    obtain ⟨x, hx, hp⟩ := hv
    exact ⟨x, (List.mem_filter.mp hx).1, hp⟩)

/-- the nested-forward contract -/
def JOK (fwd : Fwd) : Prop := ∀ s g, J s → J (fwd s g)

section chain
variable {cfg : Cfg} {fwd : Fwd} (hf : JOK fwd)
include hf

theorem logAt_J {s : State} (h : J s) (lvl : Nat) : J (logAt cfg fwd lvl s) := by
  unfold logAt; split
  · exact hf _ _ h
  · exact h

theorem removeModule_J {s : State} (h : J s) (u : Nat) : J (removeModule cfg fwd s u) := by
  unfold removeModule
  cases hm : s.find u with
  | none => exact h
  | some m => exact dropMod_J (hf _ _ (logAt_J hf (removePrep_J h u m hm) 10)) u

theorem failedMsg_J {s : State} (h : J s) (d : Int) (f : Frame) : J (failedMsg cfg fwd s d f) := by
  unfold failedMsg; split
  · exact h
  · exact hf _ _ h

theorem trySend_J {s : State} (h : J s) (u : Nat) (f : Frame) : J (trySend cfg fwd s u f) := by
  unfold trySend
  dsimp only
  have h1 := sendRaw_J h u f
  generalize sendRaw s u f = r at h1
  obtain ⟨s1, okb⟩ := r
  cases okb with
  | true => simp only [if_true]; exact J_upd h1 u _ (by intro _; rfl) (by intro _; rfl)
  | false =>
    simp only [Bool.false_eq_true, if_false]
    split
    · exact h1
    · exact failedMsg_J hf (logAt_J hf (removeModule_J hf h1 u) 40) _ f

theorem deliverOne_J {s : State} (h : J s) (f : Frame) (u : Nat) : J (deliverOne cfg fwd f s u) := by
  unfold deliverOne
  cases hm : s.find u with
  | none => exact h
  | some m =>
    simp only
    split
    · split
      · exact trySend_J hf h u f
      · exact h
    · split
      · exact trySend_J hf h u f
      · exact failedMsg_J hf (J_upd h u _ (by intro _; rfl) (by intro _; rfl)) _ f

theorem deliver_J (f : Frame) : ∀ (rs : List Nat) {s : State}, J s → J (deliver cfg fwd f rs s)
  | [], _, h => h
  | u :: rest, s, h => by unfold deliver; exact deliver_J f rest (deliverOne_J hf h f u)

end chain

theorem forward_J (cfg : Cfg) : ∀ n, JOK (forward cfg n)
  | 0 => fun s g h => by unfold forward; exact J_crash h _
  | n + 1 => fun s g h => by
    have ih := forward_J cfg n
    unfold forward
    split
    · exact h
    · have hc := J_count (cfg := cfg) h g.mtype
      dsimp only
      split
      · exact logAt_J ih hc 40
      · split
        · exact logAt_J ih hc 40
        · exact deliver_J ih g _ hc

theorem fwdTop_J (cfg : Cfg) : JOK (fwdTop cfg) := fun s g h => forward_J cfg _ s g h

/-! ## top level -/
section top
variable (cfg : Cfg)

theorem toLoggers_J (f : Frame) : ∀ (ls : List Nat) {s : State}, J s → J (toLoggers cfg f ls s)
  | [], _, h => h
  | u :: rest, s, h => by
    unfold toLoggers
    apply toLoggers_J f rest
    unfold loggerOne
    cases s.find u with
    | none => exact h
    | some m => exact trySend_J (fwdTop_J cfg) h u f

theorem sendAck_J {s : State} (h : J s) (u : Nat) : J (sendAck cfg s u) := by
  unfold sendAck
  cases s.find u with
  | none => exact h
  | some m => exact toLoggers_J cfg _ _ (trySend_J (fwdTop_J cfg) h u _)

theorem infoOf_J {s : State} (h : J s) (m : Module) : J (infoOf cfg s m) := by
  unfold infoOf; exact fwdTop_J cfg _ _ (logAt_J (fwdTop_J cfg) h 10)

theorem sendInfo_J {s : State} (h : J s) (u : Nat) : J (sendInfo cfg s u) := by
  unfold sendInfo
  cases s.find u with
  | none => exact h
  | some m => exact infoOf_J cfg h m

theorem setReq_closed (buf : List Nat) (hd : Hdr) (x : Module) :
    (setReq cfg buf hd x).uid = x.uid ∧ (setReq cfg buf hd x).closed = x.closed := by
  unfold setReq; split <;> exact ⟨rfl, rfl⟩

theorem clashLoop_J (me : Module) : ∀ (os : List Module) {s : State}, J s → J (clashLoop cfg me os s).1
  | [], _, h => h
  | o :: rest, s, h => by
    unfold clashLoop
    split
    · exact h
    · apply clashLoop_J me rest
      split
      · exact h
      · exact logAt_J (fwdTop_J cfg) h 10

theorem connect_J {s : State} (h : J s) (u : Nat) (hd : Hdr) : J (connectModule cfg s u hd).1 := by
  unfold connectModule
  dsimp only
  split
  · exact h
  · split
    · exact removeModule_J (fwdTop_J cfg) (logAt_J (fwdTop_J cfg)
        (J_upd h u _ (fun m => (setReq_closed cfg _ _ m).1) (fun m => (setReq_closed cfg _ _ m).2)) 40) u
    · rename_i nm _
      have h1 : J (s.upd u (setAll cfg s.buf hd nm)) :=
        J_upd h u _ (fun m => by unfold setAll; exact (setReq_closed cfg _ _ m).1)
          (fun m => by unfold setAll; exact (setReq_closed cfg _ _ m).2)
      split
      · split
        · exact removeModule_J (fwdTop_J cfg) (logAt_J (fwdTop_J cfg) h1 40) u
        · have hl := clashLoop_J cfg (setAll cfg s.buf hd nm (lookupMod s u))
            ((s.upd u (setAll cfg s.buf hd nm)).mods.filter (·.uid != u)) h1
          generalize clashLoop cfg (setAll cfg s.buf hd nm (lookupMod s u))
            ((s.upd u (setAll cfg s.buf hd nm)).mods.filter (·.uid != u)) (s.upd u (setAll cfg s.buf hd nm)) = r at hl
          obtain ⟨s2, cl⟩ := r
          dsimp only at hl ⊢
          split
          · exact removeModule_J (fwdTop_J cfg) (logAt_J (fwdTop_J cfg) hl 40) u
          · exact J_same (J_upd hl u _ (by intro _; rfl) (by intro _; rfl)) rfl rfl rfl
      · split
        · exact removeModule_J (fwdTop_J cfg) (logAt_J (fwdTop_J cfg) h1 40) u
        · exact J_same (J_upd (J_same h1 (s' := { (s.upd u (setAll cfg s.buf hd nm)) with nextDyn := _ }) rfl rfl rfl)
            u _ (by intro _; rfl) (by intro _; rfl)) rfl rfl rfl

theorem J_setSubs {s : State} (h : J s) (i : List (Int × List Nat)) (u : Nat) (l : List Int) :
    J (({ s with idx := i } : State).setSubs u l) := by
  unfold State.setSubs
  have h0 : J ({ s with idx := i } : State) := J_same h rfl rfl rfl
  exact J_upd h0 u (fun m => { m with subs := l }) (by intro _; rfl) (by intro _; rfl)

theorem addSubCore_J {s : State} (h : J s) (u : Nat) (t : Int) : J (addSubCore cfg s u t) := by
  unfold addSubCore
  dsimp only
  split
  · exact J_setSubs h _ u _
  · split
    · exact h
    · exact J_setSubs h _ u _

theorem addSub_J {s : State} (h : J s) (u : Nat) (t : Int) : J (addSub cfg s u t) := by
  unfold addSub; split
  · exact logAt_J (fwdTop_J cfg) (addSubCore_J cfg h u t) 10
  · exact addSubCore_J cfg h u t

theorem removeSubCore_J {s : State} (h : J s) (u : Nat) (t : Int) : J (removeSubCore cfg s u t) := by
  unfold removeSubCore
  dsimp only
  split
  · exact J_setSubs h _ u _
  · split
    · exact h
    · exact J_setSubs h _ u _

theorem removeSub_J {s : State} (h : J s) (u : Nat) (t : Int) : J (removeSub cfg s u t) := by
  unfold removeSub; split
  · exact logAt_J (fwdTop_J cfg) (removeSubCore_J cfg h u t) 10
  · exact removeSubCore_J cfg h u t

theorem process_J {s : State} (h : J s) (u : Nat) (hd : Hdr) : J (processMessage cfg s u hd) := by
  unfold processMessage
  dsimp only
  split
  · have hc := connect_J cfg h u hd
    generalize connectModule cfg s u hd = r at hc
    obtain ⟨s1, okb⟩ := r
    dsimp only
    split
    · exact logAt_J (fwdTop_J cfg) (infoOf_J cfg (sendAck_J cfg hc u) _) 20
    · exact hc
  · split
    · exact logAt_J (fwdTop_J cfg) (removeModule_J (fwdTop_J cfg) h u) 20
    · split
      · exact sendAck_J cfg (addSub_J cfg h u _) u
      · split
        · exact sendAck_J cfg (removeSub_J cfg h u _) u
        · split
          · split
            · exact removeModule_J (fwdTop_J cfg) (logAt_J (fwdTop_J cfg) h 40) u
            · exact infoOf_J cfg (logAt_J (fwdTop_J cfg) (J_upd h u _ (by intro _; rfl) (by intro _; rfl)) 20) _
          · split
            · exact sendInfo_J cfg (J_upd h u _ (by intro _; rfl) (by intro _; rfl)) u
            · exact fwdTop_J cfg _ _ (logAt_J (fwdTop_J cfg) h 10)

theorem readOne_J {s : State} (h : J s) (r : Read) : J (readOne cfg s r) := by
  unfold readOne
  split
  · exact h
  · cases hm : s.find r.uid with
    | none => exact h
    | some m =>
      dsimp only
      have h1 : J (s.emit (.rd r.uid)) := J_emit h _ (fun _ => rfl) (fun v hv => by simp [touches] at hv)
      have rm : ∀ (s' : State), J s' → ∀ lvl, J (logAt cfg (fwdTop cfg) lvl (removeModule cfg (fwdTop cfg) s' r.uid)) :=
        fun s' h' lvl => logAt_J (fwdTop_J cfg) (removeModule_J (fwdTop_J cfg) h' r.uid) lvl
      have hb : ∀ b, J { (s.emit (.rd r.uid)) with buf := b } := fun b => J_same h1 rfl rfl rfl
      split
      · exact rm _ h1 40
      · split
        · exact rm _ h1 30
        · split
          · exact rm _ h1 30
          · split
            · split
              · exact rm _ h1 40
              · split
                · exact rm _ (hb _) 30
                · exact process_J cfg (hb _) _ _
            · exact process_J cfg h1 _ _

theorem readAll_J : ∀ (rs : List Read) {s : State}, J s → J (readAll cfg rs s)
  | [], _, h => h
  | r :: rest, s, h => by unfold readAll; exact readAll_J rest (readOne_J cfg h r)

theorem foldl_fwd_J : ∀ (fs : List Frame) {s : State}, J s → J (fs.foldl (fwdTop cfg) s)
  | [], _, h => h
  | f :: rest, s, h => by simp only [List.foldl_cons]; exact foldl_fwd_J rest (fwdTop_J cfg _ _ h)

theorem infoAll_J : ∀ (ms : List Module) {s : State}, J s → J (infoAll cfg ms s)
  | [], _, h => h
  | m :: rest, s, h => by unfold infoAll; exact infoAll_J rest (infoOf_J cfg h _)

theorem isOpen_append (s : State) (x : Module) (v : Nat) :
    isOpen { s with mods := s.mods ++ [x] } v = (isOpen s v || (x.uid == v && !x.closed)) := by
  unfold isOpen; simp [List.any_append]

theorem accept_J {s : State} (h : J s) : J (acceptStep cfg s) := by
  unfold acceptStep
  have h1 := logAt_J (cfg := cfg) (fwdTop_J cfg) h 20
  generalize logAt cfg (fwdTop cfg) 20 s = s1 at h1
  dsimp only
  refine ⟨fun v => ?_, fun v => h1.ns v⟩
  have := h1.phi v
  unfold Mgr.phi at this ⊢
  have ho : isOpen { s1 with nextUid := s1.nextUid + 1, mods := s1.mods ++ [{ uid := s1.nextUid + 1 }] } v =
      (isOpen s1 v || (s1.nextUid + 1 == v)) := by
    unfold isOpen; simp [List.any_append]
  rw [ho]
  show closeCnt s1.out v + _ + (if s1.nextUid + 1 < v then 1 else 0) ≤ 1
  by_cases hv : s1.nextUid + 1 = v
  · subst hv
    have h1 : s1.nextUid < s1.nextUid + 1 := Nat.lt_succ_self _
    simp only [h1, if_true] at this
    simp only [beq_self_eq_true, Bool.or_true, if_true, Nat.lt_irrefl, if_false]
    cases h4 : isOpen s1 (s1.nextUid + 1) <;> simp only [h4, if_true, Bool.false_eq_true, if_false] at this ⊢ <;> omega
  · have h1 : (s1.nextUid + 1 == v) = false := by simpa using hv
    rw [h1, Bool.or_false]
    by_cases h2 : s1.nextUid + 1 < v
    · have h3 : s1.nextUid < v := by omega
      simp only [h2, h3, if_true] at this ⊢; exact this
    · simp only [h2, if_false]
      cases h4 : isOpen s1 v <;> simp only [h4, if_true, Bool.false_eq_true, if_false] at this ⊢ <;> omega

theorem io_J {s : State} (h : J s) (a : Bool) (w : List Nat) (rs : List Read) : J (ioStep cfg s a w rs) := by
  unfold ioStep
  split
  · dsimp only
    apply readAll_J
    cases a with
    | true => simp only [if_true]; exact J_same (accept_J cfg h) rfl rfl rfl
    | false => simp only [Bool.false_eq_true, if_false]; exact J_same h rfl rfl rfl
  · exact h

theorem ticks_J {s : State} (h : J s) : J (ticks cfg s) := by
  unfold ticks
  have h1 : J (if cfg.timing && s.now - s.tTiming > cfg.pTiming then { sendTiming cfg s with tTiming := s.now } else s) := by
    split
    · unfold sendTiming
      exact J_same (fwdTop_J cfg _ _ (J_same h (s' := { s with counts := [], inTraffic := true }) rfl rfl rfl)) rfl rfl rfl
    · exact h
  generalize (if cfg.timing && s.now - s.tTiming > cfg.pTiming then { sendTiming cfg s with tTiming := s.now } else s) = s1 at h1
  dsimp only
  have h2 : J (if s1.now - s1.tTraffic > cfg.pTraffic then sendTraffic cfg s1 else s1) := by
    split
    · unfold sendTraffic
      exact J_same (foldl_fwd_J cfg _ (logAt_J (fwdTop_J cfg) (J_same h1 (s' := { s1 with inTraffic := true }) rfl rfl rfl) 10)) rfl rfl rfl
    · exact h1
  generalize (if s1.now - s1.tTraffic > cfg.pTraffic then sendTraffic cfg s1 else s1) = s2 at h2
  split
  · unfold sendActive
    exact J_same (fwdTop_J cfg _ _ (infoAll_J cfg _ (logAt_J (fwdTop_J cfg) h2 10))) rfl rfl rfl
  · exact h2

theorem step_J {s : State} (h : J s) (r : Round) : J (step cfg s r) := by
  unfold step
  split
  · exact h
  · exact ticks_J cfg (io_J cfg (J_same h (s' := envStep s r) rfl rfl rfl) _ _ _)

theorem init_J : J (init cfg) := by
  unfold init
  apply logAt_J (fwdTop_J cfg)
  refine ⟨fun u => ?_, fun u => by simp [NS, nsRev]⟩
  unfold Mgr.phi closeCnt isOpen
  simp only [List.countP_nil, List.any_cons, List.any_nil, Bool.or_false, Nat.zero_add]
  by_cases hu : u = 0
  · subst hu; simp
  · have : (0 == u) = false := by simp; omega
    simp [this]; split <;> omega

theorem run_J (rs : List Round) : J (run cfg rs) := by
  unfold run
  have : ∀ (rs : List Round) (s : State), J s → J (rs.foldl (step cfg) s) := by
    intro rs; induction rs with
    | nil => intro s h; exact h
    | cons r rest ih => intro s h; exact ih _ (step_J cfg h r)
  exact this rs _ (init_J cfg)

end top
end Pyrtma.Mgr
