import Pyrtma.Proofs.ManagerStatsTab
import Pyrtma.Proofs.ManagerStatsQuiet
import Pyrtma.Proofs.ManagerStatsEv
import Pyrtma.Proofs.ManagerSafe
/-!
# The requester's table entry after a connect request, and the acknowledgement that tells the Spec about it
-/
namespace Pyrtma.Mgr

abbrev isAckB : Body → Bool := fun b => b == .ack

theorem ctlIO_ack : CtlIO isAckB := by intro _ _ _ _ _ _; rfl

section withcfg
variable {cfg : Cfg} (ok : CfgOK cfg) (hfuel : cfg.fuel = 0)
include ok hfuel

/-- a failed write costs the addressee its place in the table -/
theorem trySend_gone {s : State} (ht : Top cfg s) (u : Nat) (f : Frame) (m : Module) (hm : s.find u = some m)
    (hc : canTake s u = false) : (trySend cfg (fwdTop cfg) s u f).find u = none := by
  have hopen := ht.aopen u m hm
  obtain ⟨g1, _⟩ := sendRaw_good ht.good u f m hm hopen
  have hok : (sendRaw s u f).2 = false := by rw [sendRaw_ok]; exact hc
  unfold trySend
  dsimp only
  generalize sendRaw s u f = r at g1 hok
  obtain ⟨s1, okb⟩ := r
  simp only at g1 hok ⊢
  subst hok
  simp only [Bool.false_eq_true, if_false]
  have hcr : s1.crashed.isSome = false := by rw [g1.ok]; rfl
  simp only [hcr, Bool.false_eq_true, if_false]
  have h1 := removeModule_gone cfg (fwdTop cfg) s1 u
  have h2 := rkp_gone (logTop_rk cfg (fun _ => false) 40 _) (u := u) rfl h1
  exact rkp_gone (failedMsg_rk (fwdTop_rk cfg) (fun _ => false) _ _ f) (u := u) rfl h2

/-- **a connect request that leaves the requester in the table was accepted, acknowledged to the requester first, and
    its entry is what the request said** -/
theorem connect_survivor {s : State} (ht : Top cfg s) (hd : UidsDistinct s) (u : Nat) (h : Hdr) (m : Module)
    (hm : s.find u = some m) (hnc : m.connected = false)
    (hc : (h.mtype == cfg.mtConnect || h.mtype == cfg.mtConnectV2) = true) (m' : Module)
    (hm' : (processMessage cfg s u h).find u = some m') :
    ∃ nm, (if h.mtype == cfg.mtConnectV2 then cstr s.buf 12 32 else some m.name) = some nm ∧
      m'.connected = true ∧ m'.pid = (setAll cfg s.buf h nm m).pid ∧ m'.isLogger = (setAll cfg s.buf h nm m).isLogger ∧
      ((setAll cfg s.buf h nm m).modId ≠ 0 → m'.modId = (setAll cfg s.buf h nm m).modId) ∧
      failOf s u = none ∧
      ∃ rest, dataSends isAckB (processMessage cfg s u h).out = dataSends isAckB s.out ++ (u, ackFrame cfg m'.modId) :: rest := by
  have hT' := top_process ok hfuel ht u m hm h
  have hopen' : m'.closed = false := hT'.aopen u m' hm'
  have hconn := top_connect ok hfuel ht u h
  have hqe := connect_QI cfg (tag_ack cfg) ctlIO_ack s u h
  have hev := connect_ev cfg hd u h
  unfold processMessage at hm' ⊢
  simp only [hc, if_true] at hm' ⊢
  rcases connectModule_cases cfg s u h m hm hnc with ⟨s2, he⟩ | ⟨nm, s2, F, hn, hrk, hF, hok, hmods⟩
  · rw [he] at hm'
    simp only [Bool.false_eq_true, if_false] at hm'
    rw [removeModule_gone] at hm'; cases hm'
  · generalize hr : connectModule cfg s u h = r at hm' hconn hqe hev hok hmods ⊢
    obtain ⟨s1, okb⟩ := r
    simp only at hm' hconn hqe hev hok hmods ⊢
    subst hok
    simp only [if_true] at hm' ⊢
    -- the requester's entry in `s1`
    have hfu : (s.upd u (setAll cfg s.buf h nm)).find u = some (setAll cfg s.buf h nm m) :=
      find_upd_self s u _ (setAll_uid cfg s.buf h nm) hm
    have hrk' : RK s1 (logAt cfg (fwdTop cfg) 20 (infoOf cfg (sendAck cfg s1 u) (connectRecord cfg s u h))) :=
      ((sendAck_rk cfg _ s1 u).trans (infoOf_rk cfg _ _ _)).trans (logTop_rk cfg _ 20 _)
    obtain ⟨ms1, hms1, hk1⟩ := hrk' u m' rfl hm'
    have hs1u : s1.find u = (s2.upd u F).find u := by unfold State.find; rw [hmods]
    rw [hs1u, find_upd s2 u u F (fun x => (hF x).1)] at hms1
    cases h2 : s2.find u with
    | none => simp [h2] at hms1
    | some m2 =>
      have hu2 := find_uid h2
      simp only [h2, Option.map_some, hu2, beq_self_eq_true, if_true, Option.some.injEq] at hms1
      obtain ⟨m0, hm0, hk0⟩ := hrk u m2 rfl h2
      rw [hfu] at hm0; cases hm0
      subst hms1
      have ht0 := hk0.1
      have ht1 := hk1.1
      simp only [Module.tabv, Prod.mk.injEq] at ht0 ht1
      obtain ⟨_, f2, f3, f4, f5⟩ := hF m2
      have hcn : m'.connected = true := ((hk1.2 hopen').2).trans f4
      refine ⟨nm, hn, hcn, by rw [ht1.2.1, f2, ht0.2.1], by rw [ht1.2.2, f3, ht0.2.2],
        fun hne => by rw [ht1.1, f5 hne, ht0.1], ?_, ?_⟩
      all_goals
        have hs1find : s1.find u = some (F m2) := by
          rw [hs1u, find_upd s2 u u F (fun x => (hF x).1), h2]; simp [hu2]
        -- the acknowledgement
        have hsa : sendAck cfg s1 u = toLoggers cfg (ackFrame cfg (F m2).modId) (cfg.order
            (trySend cfg (fwdTop cfg) s1 u (ackFrame cfg (F m2).modId)).loggers)
            (trySend cfg (fwdTop cfg) s1 u (ackFrame cfg (F m2).modId)) := by
          unfold sendAck; rw [hs1find]
        have hct : canTake s1 u = true := by
          cases hq : canTake s1 u with
          | true => rfl
          | false =>
            exfalso
            have g1 := trySend_gone ok hfuel hconn u (ackFrame cfg (F m2).modId) (F m2) hs1find hq
            have g2 := rkp_gone (toLoggers_rk cfg (fun _ => false) (ackFrame cfg (F m2).modId) (cfg.order
              (trySend cfg (fwdTop cfg) s1 u (ackFrame cfg (F m2).modId)).loggers) _) (u := u) rfl g1
            rw [← hsa] at g2
            have g3 := rkp_gone ((infoOf_rk cfg (fun _ => false) (sendAck cfg s1 u) (connectRecord cfg s u h)).trans
              (logTop_rk cfg _ 20 _)) (u := u) rfl g2
            rw [g3] at hm'; cases hm'
      · -- the requester's socket works
        unfold canTake at hct
        rw [hs1find] at hct
        simp only [Bool.and_eq_true, Bool.not_eq_true', Option.isNone_iff_eq_none] at hct
        obtain ⟨e, he⟩ := hev
        rw [← failOf_congr he.fail]; exact hct.2
      · have hts := (trySend_ok cfg (tag_ack cfg) (fwdTop_ok cfg (tag_ack cfg)) s1 u (ackFrame cfg (F m2).modId)).2
        simp only [hct, true_and] at hts
        have hB : isAckB (ackFrame cfg (F m2).modId).body = true := rfl
        rw [if_pos hB] at hts
        -- everything after only appends
        have hgrow : ∃ ext, (logAt cfg (fwdTop cfg) 20 (infoOf cfg (sendAck cfg s1 u) (connectRecord cfg s u h))).out =
            (trySend cfg (fwdTop cfg) s1 u (ackFrame cfg (F m2).modId)).out ++ ext := by
          have d1 : UidsDistinct (trySend cfg (fwdTop cfg) s1 u (ackFrame cfg (F m2).modId)) :=
            (trySend_ev (cfg := cfg) (fwdTop_ev cfg) (hev.distinct hd) u _).distinct (hev.distinct hd)
          have e1 := toLoggers_ev cfg (ackFrame cfg (F m2).modId) (cfg.order
            (trySend cfg (fwdTop cfg) s1 u (ackFrame cfg (F m2).modId)).loggers) d1
          rw [← hsa] at e1
          have e2 := infoOf_ev cfg (e1.distinct d1) (connectRecord cfg s u h)
          have e3 := logTop_ev cfg 20 ((e1.trans e2).distinct d1)
          obtain ⟨ext, he⟩ := (e1.trans e2).trans e3
          exact ⟨ext, he.out⟩
        obtain ⟨ext, hext⟩ := hgrow
        refine ⟨dataSends isAckB ext, ?_⟩
        rw [hext, dataSends_append, hts, dataSends_of_QE hqe, ht1.1]
        simp

end withcfg

end Pyrtma.Mgr
