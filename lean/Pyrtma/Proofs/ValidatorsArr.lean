import Pyrtma.Proofs.ValidatorsSound
/-!
# Soundness of array assignments (index, every slice shape, whole array, another message's array object)

`arr_field_sound`: an accepted assignment to an array field is in the Spec's domain, every selected element holds its
item, every other element is untouched, and reading the selection back returns the stored elements.
-/
namespace Pyrtma.Validators

/-! ### the Spec's `inDom` / `postOk` on array fields, one equation per shape of (key, value) -/

theorem inDom_arr_idx (cls : ArrCls) (vk : VK) (n : Nat) (i : Int) (s : Scalar) :
    inDom (.arr cls vk n) (.idx i) (.sc s) = ((keyIndices n (.idx i)).isSome && elemDomOne vk s) := rfl

theorem inDom_arr_slice (cls : ArrCls) (vk : VK) (n : Nat) (a b c : Option Int) (v : PyVal) :
    inDom (.arr cls vk n) (.slice a b c) v =
      (match keyIndices n (.slice a b c), seqItems v with
       | some idxs, some xs => xs.length == idxs.length && xs.all (elemDomSeq vk)
       | _, _ => false) := by
  cases v <;> rfl

theorem inDom_arr_whole_sc (cls : ArrCls) (vk : VK) (n : Nat) (s : Scalar) :
    inDom (.arr cls vk n) .whole (.sc s) =
      (match keyIndices n .whole, seqItems (.sc s) with
       | some idxs, some xs => xs.length == idxs.length && xs.all (elemDomSeq vk)
       | _, _ => false) := rfl

theorem inDom_arr_whole_seq (cls : ArrCls) (vk : VK) (n : Nat) (k : SeqK) (ys : List Scalar) :
    inDom (.arr cls vk n) .whole (.seq k ys) =
      (match keyIndices n .whole, seqItems (.seq k ys) with
       | some idxs, some xs => xs.length == idxs.length && xs.all (elemDomSeq vk)
       | _, _ => false) := rfl

theorem inDom_arr_whole_arr (cls : ArrCls) (vk : VK) (n : Nat) (vcls : ArrCls) (vvk : VK) (vn : Nat)
    (bound : Option Bytes) :
    inDom (.arr cls vk n) .whole (.arr vcls vvk vn bound) =
      ((vcls == cls && vvk == vk && vn == n && bound.isSome) ||
       (match seqItems (.arr vcls vvk vn bound) with
        | some xs => xs.length == n && xs.all (elemDomSeq vk)
        | none => false)) := rfl

/-- the (element number, item) pairs `postOk` looks at -/
def pairsOf (vk : VK) (n : Nat) (key : Key) (v : PyVal) : Option (List (Nat × Scalar)) :=
  match key, v with
  | .idx i, .sc s => (keyIndices n (.idx i)).map fun l => l.map fun j => (j, s)
  | _, .arr _ _ _ (some raw) =>
    if key == .whole then some ((List.range n).zip (decodeItems vk n raw))
    else (keyIndices n key).bind fun l => (seqItems v).map fun xs => l.zip xs
  | _, _ => (keyIndices n key).bind fun l => (seqItems v).map fun xs => l.zip xs

def rbElemOk (vk : VK) (post : Bytes) (q : (Nat × Scalar) × Scalar) : Bool :=
  let c := elemAt post q.1.1 vk.esize
  match vk with
  | .byte => q.2 == .bytes c
  | _ => sameRead q.2 (readElem vk c)

theorem postOk_arr (cls : ArrCls) (vk : VK) (n : Nat) (key : Key) (v : PyVal) (post : Bytes) (rb : List Scalar) :
    postOk (.arr cls vk n) key v post rb =
      (match pairsOf vk n key v with
       | none => false
       | some ps =>
         ps.all (fun p => holds1 vk p.2 (elemAt post p.1 vk.esize)) &&
         rb.length == ps.length && (ps.zip rb).all (rbElemOk vk post)) := by
  rfl

theorem sameRead_refl (a : Scalar) : sameRead a a = true := by
  cases a <;> simp [sameRead]

theorem rb_zip_ok (vk : VK) (post : Bytes) : ∀ (ps : List (Nat × Scalar)),
    ((ps.zip (ps.map (fun p => decodeOne vk (elemBytes post p.1 vk.esize)))).all (rbElemOk vk post)) = true
  | [] => by simp
  | p :: ps => by
    simp only [List.map_cons, List.zip_cons_cons, List.all_cons, Bool.and_eq_true]
    refine ⟨?_, rb_zip_ok vk post ps⟩
    cases vk with
    | byte => simp [rbElemOk, decodeOne, elemAt_eq]
    | int k => simp [rbElemOk, decodeOne, readElem, elemAt_eq, sameRead_refl]
    | strct t z => simp [rbElemOk, decodeOne, readElem, elemAt_eq, sameRead_refl]
    | flt k => cases k <;> simp [rbElemOk, decodeOne, readElem, elemAt_eq, sameRead_refl]

/-- if every selected element holds its item, `postOk`'s three conjuncts hold for the model's read-back -/
theorem pairs_ok (vk : VK) (post : Bytes) (ps : List (Nat × Scalar))
    (hh : ∀ p ∈ ps, holds1 vk p.2 (elemBytes post p.1 vk.esize) = true) :
    (ps.all (fun p => holds1 vk p.2 (elemAt post p.1 vk.esize)) &&
     (ps.map (fun p => decodeOne vk (elemBytes post p.1 vk.esize))).length == ps.length &&
     (ps.zip (ps.map (fun p => decodeOne vk (elemBytes post p.1 vk.esize)))).all (rbElemOk vk post)) = true := by
  rw [rb_zip_ok]
  simp only [List.length_map, beq_self_eq_true, Bool.and_true, List.all_eq_true]
  intro p hp
  exact hh p hp

theorem seqItems_of_items (v : PyVal) (xs : List Scalar) (hs : sized v = true) (hi : items v = .ok xs) :
    seqItems v = some xs := by
  cases v with
  | sc s =>
    cases s <;> simp [sized] at hs <;> simp only [items, Except.ok.injEq] at hi <;> subst hi <;> rfl
  | seq k ys =>
    simp only [items, Except.ok.injEq] at hi; subst hi
    cases k <;> simp [sized] at hs <;> rfl
  | arr c vk n b =>
    cases b with
    | none => simp [items] at hi
    | some raw => simp only [items, Except.ok.injEq] at hi; subst hi; rfl


/-! ### items that passed validation -/


/-- a float-kind item that passed validation: a ctypes instance, or a number whose conversion is not infinite -/
def fltValid (k : FK) (x : Scalar) : Prop :=
  (∃ t raw, x = .cdata t raw) ∨ ∃ d, toDouble x = .ok d ∧ infAfter k d = false

theorem elemStore_flt_num (k : FK) (x : Scalar) (d : Nat) (hd : toDouble x = .ok d) :
    elemStore (.flt k) x = .ok (encFlt k d) := by
  cases x <;> simp [toDouble] at hd <;> simp [elemStore, toDouble, hd]

theorem holds1_of_store (vk : VK) (hF : FloatOK vk) (x : Scalar) (b : Bytes) (hw : scalarWF vk x = true)
    (hv : ∀ k, vk = .flt k → fltValid k x) (hs : elemStore vk x = .ok b) : holds1 vk x b = true := by
  cases vk with
  | int k => exact holds1_int k x b hs
  | byte => exact holds1_byte x b hs
  | strct t z => exact holds1_strct t z x b hs
  | flt k =>
    rcases hv k rfl with ⟨t, raw, rfl⟩ | ⟨d, hd, hinf⟩
    · cases t with
      | flt k' =>
        simp only [elemStore] at hs
        split at hs
        · simp only [Except.ok.injEq] at hs; subst hs; simp [holds1]
        · cases hs
      | _ => simp [elemStore] at hs
    · rw [elemStore_flt_num k x d hd] at hs
      simp only [Except.ok.injEq] at hs; subst hs
      exact ((hF k rfl).1 k x d hw hd hinf).2

theorem fltMany_valid (k : FK) : ∀ (xs : List Scalar), fltMany k xs = .ok () →
    ∀ x ∈ xs, ∃ d, toDouble x = .ok d ∧ infAfter k d = false
  | [], _ => by simp
  | y :: ys, h => by
    unfold fltMany at h
    split at h
    · simp at h
    · rename_i b hb
      split at h
      · simp at h
      · rename_i hinf
        intro x hx
        simp only [List.mem_cons] at hx
        rcases hx with rfl | hx
        · exact ⟨b, hb, by simpa using hinf⟩
        · exact fltMany_valid k ys h x hx

/-- every item of a sequence `validate_many` lets through is in the element domain (and, for floats, valid) -/
theorem validateMany_elems (vk : VK) (hF : FloatOK vk) (v : PyVal) (xs : List Scalar)
    (hm : validateMany vk v = .ok ()) (hi : items v = .ok xs) (hw : ∀ x ∈ xs, scalarWF vk x = true)
    (hby : ∀ bs, v = .sc (.bytes bs) → ∀ b ∈ bs, b < 256) :
    ∀ x ∈ xs, elemDomSeq vk x = true ∧ (∀ k, vk = .flt k → fltValid k x) := by
  unfold validateMany at hm
  split at hm
  · rename_i bs
    simp only [items, Except.ok.injEq] at hi; subst hi
    intro x hx
    simp only [List.mem_map] at hx
    obtain ⟨b, hb, rfl⟩ := hx
    have := hby bs rfl b hb
    refine ⟨?_, fun k hk => by cases hk⟩
    simp only [elemDomSeq, intDom, decide_eq_true_eq]; omega
  · rw [hi] at hm
    simp only at hm
    cases vk with
    | int k => intro x hx; exact ⟨intMany_range hm x hx, fun k hk => by cases hk⟩
    | byte => intro x hx; exact ⟨intMany_range hm x hx, fun k hk => by cases hk⟩
    | strct t z => intro x hx; exact ⟨strctMany_dom t z xs hm x hx, fun k hk => by cases hk⟩
    | flt k =>
      intro x hx
      obtain ⟨d, hd, hinf⟩ := fltMany_valid k xs hm x hx
      refine ⟨?_, fun k' hk => by cases hk; exact Or.inr ⟨d, hd, hinf⟩⟩
      simp only [elemDomSeq]
      exact ((hF k rfl).1 k x d (hw x hx) hd hinf).1

/-- a single right-hand side `validate_one` lets through -/
theorem validateOne_elem (vk : VK) (hF : FloatOK vk) (s : Scalar) (hw : scalarWF vk s = true)
    (h : validateOne vk s = .ok ()) : elemDomOne vk s = true ∧ (∀ k, vk = .flt k → fltValid k s) := by
  cases vk with
  | int k => exact ⟨validateOne_dom_int k s h, fun k hk => by cases hk⟩
  | byte => exact ⟨validateOne_dom_byte s h, fun k hk => by cases hk⟩
  | strct t z => exact ⟨validateOne_dom_strct t z s h, fun k hk => by cases hk⟩
  | flt k =>
    unfold validateOne at h
    cases s with
    | cdata t raw =>
      cases t with
      | flt k' =>
        simp only at h
        split at h
        · rename_i hk
          exact ⟨by simp [elemDomOne, hk], fun k' hk' => Or.inl ⟨_, _, rfl⟩⟩
        · cases h
      | _ => cases h
    | flt d0 =>
      simp only [toDouble] at h
      split at h
      · cases h
      · rename_i hinf
        have := (hF k rfl).1 k (.flt d0) d0 hw rfl (by simpa using hinf)
        exact ⟨by simp [elemDomOne, elemDomSeq, this.1],
          fun k' hk' => by cases hk'; exact Or.inr ⟨d0, rfl, by simpa using hinf⟩⟩
    | int n =>
      simp only at h
      cases hd : toDouble (.int n) with
      | error e => simp [hd] at h
      | ok d =>
        simp only [hd] at h
        split at h
        · cases h
        · rename_i hinf
          have := (hF k rfl).1 k (.int n) d hw hd (by simpa using hinf)
          exact ⟨by simp [elemDomOne, elemDomSeq, this.1],
            fun k' hk' => by cases hk'; exact Or.inr ⟨d, hd, by simpa using hinf⟩⟩
    | bool c =>
      simp only at h
      cases hd : toDouble (.bool c) with
      | error e => simp [hd] at h
      | ok d =>
        simp only [hd] at h
        split at h
        · cases h
        · rename_i hinf
          have := (hF k rfl).1 k (.bool c) d hw hd (by simpa using hinf)
          exact ⟨by simp [elemDomOne, elemDomSeq, this.1],
            fun k' hk' => by cases hk'; exact Or.inr ⟨d, hd, by simpa using hinf⟩⟩
    | _ => cases h


/-! ### accepted slice / whole-array stores -/



theorem byteConv_id (v : PyVal) (h : ¬ ∃ bs, v = .sc (.bytes bs)) : byteConv v = v := by
  unfold byteConv
  split
  · exact absurd ⟨_, rfl⟩ h
  · exact absurd ⟨_, rfl⟩ h
  · rfl

theorem selIndices_key (n : Nat) (key : Key) (l : List Nat) (h : selIndices n key = .ok l) :
    keyIndices n key = some l := by
  cases key with
  | whole => simp only [selIndices, Except.ok.injEq] at h; subst h; rfl
  | idx i =>
    simp only [selIndices] at h
    simp only [keyIndices]
    generalize (if i < 0 then i + (n : Int) else i) = j at h ⊢
    split at h
    · cases h
    · rename_i hr
      simp only [Except.ok.injEq] at h; subst h
      have : 0 ≤ j ∧ j < n := by omega
      simp [this]
  | slice a b c => simp only [selIndices] at h; simp [keyIndices, h]
  | bad => cases h

theorem elemBytes_bytes (bs : Bytes) (j esz : Nat) (h : ∀ b ∈ bs, b < 256) : ∀ b ∈ elemBytes bs j esz, b < 256 := by
  intro b hb
  unfold elemBytes at hb
  exact h b (List.mem_of_mem_drop (List.mem_of_mem_take hb))

/-- items obtained by iterating a bound array object are well-formed right-hand sides -/
theorem decodeItems_wf (vk : VK) (hF : FloatOK vk) (vvk : VK) (vn : Nat) (raw : Bytes)
    (hl : raw.length = vvk.esize * vn) (hb : ∀ b ∈ raw, b < 256)
    (hs : match vvk, vk with | .strct t z, .strct tid sz => (t != tid || z == sz) = true | _, _ => True) :
    ∀ x ∈ decodeItems vvk vn raw, scalarWF vk x = true := by
  rw [decodeItems_eq]
  intro x hx
  simp only [List.mem_map, List.mem_range] at hx
  obtain ⟨i, hi, rfl⟩ := hx
  have hlen : (elemBytes raw i vvk.esize).length = vvk.esize :=
    elemBytes_length raw i vvk.esize (by rw [hl]; exact idx_in_range hi)
  have hbb := elemBytes_bytes raw i vvk.esize hb
  cases vvk with
  | int k => simp [decodeOne, scalarWF]
  | byte => simpa [decodeOne, scalarWF] using hbb
  | flt k =>
    cases vk with
    | flt kf =>
      cases k with
      | f32 => simpa [decodeOne, scalarWF] using (hF kf rfl).2.2 _
      | f64 =>
        have := fromLE_lt _ hbb
        rw [hlen] at this
        simpa [decodeOne, scalarWF, VK.esize, FK.size] using this
    | _ => cases k <;> simp [decodeOne, scalarWF]
  | strct t z =>
    cases vk with
    | strct tid sz =>
      simp only at hs
      simp only [VK.esize] at hlen
      simp only [decodeOne, scalarWF, hlen, VK.esize]
      exact hs
    | _ => simp [decodeOne, scalarWF]

theorem items_wf (vk : VK) (hF : FloatOK vk) (v : PyVal) (xs : List Scalar) (hw : valWF vk v = true)
    (hi : items v = .ok xs) : ∀ x ∈ xs, scalarWF vk x = true := by
  cases v with
  | sc s =>
    cases s <;> simp only [items, Except.ok.injEq] at hi <;> subst hi <;> intro x hx <;>
      simp only [List.mem_map, List.not_mem_nil] at hx
    all_goals (obtain ⟨c, _, rfl⟩ := hx; simp [scalarWF])
  | seq k ys =>
    simp only [items, Except.ok.injEq] at hi; subst hi
    simpa [valWF] using hw
  | arr c vvk vn b =>
    cases b with
    | none => simp [items] at hi
    | some raw =>
      simp only [items, Except.ok.injEq] at hi; subst hi
      simp only [valWF, Bool.and_eq_true, beq_iff_eq, List.all_eq_true, decide_eq_true_eq] at hw
      apply decodeItems_wf vk hF vvk vn raw hw.1.1.1 hw.1.1.2
      cases vvk <;> cases vk <;> simp_all

/-- what an accepted slice / whole-array assignment amounts to (no Spec involved) -/
theorem setItem_seq_core (vk : VK) (hF : FloatOK vk) (n : Nat) (old : Bytes) (key : Key)
    (v : PyVal) (post : Bytes) (hk : key = .whole ∨ ∃ a b c, key = .slice a b c) (hw : valWF vk v = true)
    (h : setItem true vk n old key v = (post, none)) :
    ∃ idxs xs, selIndices n key = .ok idxs ∧ seqItems v = some xs ∧ xs.length = idxs.length ∧
      (∀ x ∈ xs, scalarWF vk x = true ∧ elemDomSeq vk x = true ∧ (∀ k, vk = .flt k → fltValid k x)) ∧
      storeMany vk old idxs xs = (post, none) := by
  unfold setItem at h
  simp only [if_true, Bool.true_and] at h
  cases hchk : itemCheck vk key v with
  | error e => simp [hchk] at h
  | ok u =>
    simp only [hchk] at h
    -- the ctypes slice store
    have hst : ∃ a b c, selIndices n key = sliceIndices n a b c ∧
        storeSlice vk n old a b c (if (vk == VK.byte) = true then byteConv v else v) = (post, none) := by
      rcases hk with rfl | ⟨a, b, c, rfl⟩
      · exact ⟨none, none, none, by simp [selIndices, sliceIndices_whole], h⟩
      · exact ⟨a, b, c, rfl, h⟩
    obtain ⟨a, b, c, hsel, hst⟩ := hst
    obtain ⟨idxs, xs, hsl, hsz, hit, hlen, hsm⟩ := storeSlice_ok _ _ _ _ _ _ _ _ hst
    refine ⟨idxs, xs, by rw [hsel, hsl], ?_⟩
    by_cases hby : vk = .byte ∧ ∃ bs, v = .sc (.bytes bs)
    · obtain ⟨rfl, bs, rfl⟩ := hby
      simp only [beq_self_eq_true, if_true] at hsz hit hsm
      have hbs : ∀ b ∈ bs, b < 256 := by simpa [valWF, scalarWF] using hw
      match bs, hsz, hit, hbs with
      | [], hsz, hit, hbs =>
        simp only [byteConv, List.map_nil, items, Except.ok.injEq] at hit; subst hit
        exact ⟨rfl, hlen, by simp, hsm⟩
      | [b0], hsz, hit, hbs => simp [byteConv, sized] at hsz
      | b0 :: b1 :: t, hsz, hit, hbs =>
        simp only [byteConv, items, Except.ok.injEq] at hit; subst hit
        refine ⟨rfl, hlen, ?_, hsm⟩
        intro x hx
        simp only [List.mem_map] at hx
        obtain ⟨b, hb, rfl⟩ := hx
        have := hbs b hb
        refine ⟨rfl, ?_, fun k hk => by cases hk⟩
        simp only [elemDomSeq, intDom, decide_eq_true_eq]; omega
    · have hv' : (if (vk == VK.byte) = true then byteConv v else v) = v := by
        by_cases hvk : vk = .byte
        · subst hvk
          simp only [beq_self_eq_true, if_true]
          exact byteConv_id v (fun hbs => hby ⟨rfl, hbs⟩)
        · have : (vk == VK.byte) = false := by simpa using hvk
          simp [this]
      rw [hv'] at hsz hit
      have hm : validateMany vk v = .ok () := by
        by_cases hitb : iterable v = true
        · unfold itemCheck at hchk
          cases vk with
          | strct t s => rcases hk with rfl | ⟨a, b, c, rfl⟩ <;> simpa [hitb] using hchk
          | int k => simpa [hitb] using hchk
          | flt k => simpa [hitb] using hchk
          | byte => simpa [hitb] using hchk
        · exfalso
          cases v with
          | sc s => cases s <;> simp [iterable] at hitb <;> simp [sized] at hsz
          | seq k ys => simp [iterable] at hitb
          | arr c k m r => simp [iterable] at hitb
      have hwf := items_wf vk hF v xs hw hit
      have hel := validateMany_elems vk hF v xs hm hit hwf
        (fun bs hbs => by subst hbs; simpa [valWF, scalarWF] using hw)
      exact ⟨seqItems_of_items v xs hsz hit, hlen, fun x hx => ⟨hwf x hx, hel x hx⟩, hsm⟩


/-! ### the soundness theorems for array fields -/


/-- from "every selected element holds its item" to the Spec's `postOk` -/
theorem postOk_of_pairs (cls : ArrCls) (vk : VK) (n : Nat) (key : Key) (v : PyVal) (post : Bytes)
    (idxs : List Nat) (xs : List Scalar) (hsel : selIndices n key = .ok idxs) (hlen : xs.length = idxs.length)
    (hp : pairsOf vk n key v = some (idxs.zip xs))
    (hh : ∀ p ∈ idxs.zip xs, holds1 vk p.2 (elemBytes post p.1 vk.esize) = true) :
    postOk (.arr cls vk n) key v post (readField (.arr cls vk n) key post) = true := by
  rw [postOk_arr, hp]
  simp only [readField, hsel]
  have e : idxs.map (fun j => decodeOne vk (elemBytes post j vk.esize)) =
      (idxs.zip xs).map (fun p => decodeOne vk (elemBytes post p.1 vk.esize)) := by
    have : idxs = (idxs.zip xs).map Prod.fst := by
      rw [List.map_fst_zip]; omega
    conv => lhs; rw [this]
    rw [List.map_map]; rfl
  rw [e]
  exact pairs_ok vk post _ hh

theorem arr_seq_sound (cls : ArrCls) (vk : VK) (hF : FloatOK vk) (n : Nat) (old : Bytes)
    (key : Key) (v : PyVal) (post : Bytes) (hk : key = .whole ∨ ∃ a b c, key = .slice a b c)
    (hold : old.length = vk.esize * n) (hw : valWF vk v = true)
    (hnarr : key = .whole → ∀ c k m r, v ≠ .arr c k m r)
    (h : setItem true vk n old key v = (post, none)) : SoundAt (.arr cls vk n) key v post := by
  obtain ⟨idxs, xs, hsel, hseq, hlen, hel, hsm⟩ := setItem_seq_core vk hF n old key v post hk hw h
  have hki := selIndices_key n key idxs hsel
  have hsp : (∀ i ∈ idxs, i < n) ∧ idxs.Nodup := by
    rcases hk with rfl | ⟨a, b, c, rfl⟩
    · simp only [selIndices, Except.ok.injEq] at hsel; subst hsel
      exact ⟨fun i hi => by simpa using hi, List.nodup_range⟩
    · exact sliceIndices_spec n a b c idxs hsel
  obtain ⟨h1, h2, _⟩ := storeMany_spec vk n idxs xs old post hold hsp.1 hsp.2 hlen
    (fun x hx b hb => elemStore_length vk x b (hel x hx).1 hb) hsm
  have hall : xs.all (elemDomSeq vk) = true := by
    simp only [List.all_eq_true]; exact fun x hx => (hel x hx).2.1
  refine ⟨?_, ?_, by rw [h1, hold]; rfl⟩
  · rcases hk with rfl | ⟨a, b, c, rfl⟩
    · cases v with
      | sc s => rw [inDom_arr_whole_sc, hki, hseq]; simp [hlen, hall]
      | seq k ys => rw [inDom_arr_whole_seq, hki, hseq]; simp [hlen, hall]
      | arr c k m r => exact absurd rfl (hnarr rfl c k m r)
    · rw [inDom_arr_slice, hki, hseq]; simp [hlen, hall]
  · apply postOk_of_pairs cls vk n key v post idxs xs hsel hlen
    · rcases hk with rfl | ⟨a, b, c, rfl⟩
      · cases v with
        | sc s => simp [pairsOf, hki, hseq]
        | seq k ys => simp [pairsOf, hki, hseq]
        | arr c k m r => exact absurd rfl (hnarr rfl c k m r)
      · cases v with
        | sc s => simp [pairsOf, hki, hseq]
        | seq k ys => simp [pairsOf, hki, hseq]
        | arr c k m r =>
          cases r with
          | none => simp [seqItems] at hseq
          | some raw => simp [pairsOf, hki, hseq]
    · intro p hp
      have hx : p.2 ∈ xs := (List.of_mem_zip hp).2
      exact holds1_of_store vk hF p.2 _ (hel p.2 hx).1 (hel p.2 hx).2.2 (h2 p hp)


theorem encInt_u8_byte (b : Nat) (hb : b < 256) : encInt .u8 (b : Int) = [b] := by
  simp only [encInt, IK.size, toLE]
  have : ((b : Int) % (2 ^ (8 * 1) : Int)).toNat = b := by omega
  rw [this]; simp; omega

theorem arr_idx_sound (cls : ArrCls) (vk : VK) (hF : FloatOK vk) (n : Nat) (old : Bytes) (i : Int) (v : PyVal)
    (post : Bytes) (hold : old.length = vk.esize * n) (hw : valWF vk v = true)
    (h : setItem true vk n old (.idx i) v = (post, none)) : SoundAt (.arr cls vk n) (.idx i) v post := by
  unfold setItem at h
  simp only [if_true, Bool.true_and] at h
  cases hchk : itemCheck vk (.idx i) v with
  | error e => simp [hchk] at h
  | ok u =>
    simp only [hchk] at h
    obtain ⟨s', b, hv', hj0, hjn, hst, hpost⟩ := storeIdx_ok _ _ _ _ _ _ (lift_ok _ _ _ h)
    generalize hj : (if i < 0 then i + (n : Int) else i) = j at hj0 hjn hpost
    have hsel : selIndices n (.idx i) = .ok [j.toNat] := by
      simp only [selIndices, hj]
      have : ¬ (j < 0 ∨ j ≥ n) := by omega
      simp [this]
    have hki := selIndices_key n _ _ hsel
    have hjr : j.toNat < n := by omega
    have hin : j.toNat * vk.esize + vk.esize ≤ old.length := by rw [hold]; exact idx_in_range hjr
    -- the common ending: `s` is the right-hand side, `b` the bytes stored for it
    have fin : ∀ s, v = .sc s → b.length = vk.esize → elemDomOne vk s = true → holds1 vk s b = true →
        SoundAt (.arr cls vk n) (.idx i) v post := by
      intro s hv hbl hdom hh
      subst hv
      refine ⟨by rw [inDom_arr_idx, hki]; simp [hdom], ?_, ?_⟩
      · apply postOk_of_pairs cls vk n (.idx i) (.sc s) post [j.toNat] [s] hsel rfl
        · simp [pairsOf, hki]
        · intro p hp
          simp only [List.zip_cons_cons, List.zip_nil_right, List.mem_singleton] at hp
          subst hp
          simp only
          rw [hpost, elemBytes_writeAt_same _ _ _ _ hbl hin]; exact hh
      · rw [hpost, writeAt_length _ _ _ _ hbl hin, hold]; rfl
    by_cases hby : vk = .byte ∧ ∃ bs, v = .sc (.bytes bs)
    · obtain ⟨rfl, bs, rfl⟩ := hby
      simp only [beq_self_eq_true, if_true] at hv'
      have hbs : ∀ b ∈ bs, b < 256 := by simpa [valWF, scalarWF] using hw
      match bs, hv', hbs with
      | [], hv', _ => simp [byteConv] at hv'
      | [b0], hv', hbs =>
        simp only [byteConv, PyVal.sc.injEq] at hv'; subst hv'
        have hb0 := hbs b0 (by simp)
        simp only [elemStore, Except.ok.injEq] at hst; subst hst
        rw [encInt_u8_byte b0 hb0] at hpost fin
        exact fin _ rfl rfl (by simp [elemDomOne]) (by simp [holds1])
      | b0 :: b1 :: t, hv', _ => simp [byteConv] at hv'
    · have hvv : (if (vk == VK.byte) = true then byteConv v else v) = v := by
        by_cases hvk : vk = .byte
        · subst hvk
          simp only [beq_self_eq_true, if_true]
          exact byteConv_id v (fun hbs => hby ⟨rfl, hbs⟩)
        · have : (vk == VK.byte) = false := by simpa using hvk
          simp [this]
      rw [hvv] at hv'
      subst hv'
      have hws : scalarWF vk s' = true := by simpa [valWF] using hw
      have hval : validateOne vk s' = .ok () := by
        have hni : iterable (.sc s') = false := by
          cases s' <;> first | rfl | (exfalso; cases vk <;> simp [elemStore] at hst)
        unfold itemCheck at hchk
        cases vk <;> simpa [hni] using hchk
      obtain ⟨hdom, hfv⟩ := validateOne_elem vk hF s' hws hval
      exact fin s' rfl (elemStore_length vk s' b hws hst) hdom (holds1_of_store vk hF s' b hws hfv hst)


/-- iterating an array object of the other family (struct array ↔ int/float/byte array) yields nothing the
field's element validator accepts -/
theorem mismatch_no_items (cls vcls : ArrCls) (vk vvk : VK) (c : Bytes) (h1 : clsOK cls vk = true)
    (h2 : clsOK vcls vvk = true)
    (hm : ((isArrayField cls && isArrayField vcls) || (cls == .structArray && vcls == .structArray)) = false) :
    elemDomSeq vk (decodeOne vvk c) = false := by
  cases cls <;> cases vcls <;> simp [isArrayField] at hm <;> cases vk <;> simp [clsOK] at h1 <;>
    cases vvk <;> simp [clsOK] at h2 <;>
    first
      | (simp [decodeOne, elemDomSeq]; done)
      | (rename_i k; cases k <;> simp [decodeOne, elemDomSeq, intDom, fltDom, isNaNScalar, realOf])

/-- `msg.arr = other_msg.arr` with an array object of the other family (goes through `__setitem__(slice(None))`) is
accepted only when there is nothing to store -/
theorem arr_whole_mismatch_sound (cls : ArrCls) (vk : VK) (hF : FloatOK vk) (n : Nat)
    (old : Bytes) (vcls : ArrCls) (vvk : VK) (vn : Nat) (bound : Option Bytes) (post : Bytes)
    (hc : clsOK cls vk = true) (hw : valWF vk (.arr vcls vvk vn bound) = true)
    (hm : ((isArrayField cls && isArrayField vcls) || (cls == .structArray && vcls == .structArray)) = false)
    (hold : old.length = vk.esize * n)
    (h : setItem true vk n old .whole (.arr vcls vvk vn bound) = (post, none)) :
    SoundAt (.arr cls vk n) .whole (.arr vcls vvk vn bound) post := by
  obtain ⟨idxs, xs, hsel, hseq, hlen, hel, hsm⟩ :=
    setItem_seq_core vk hF n old .whole _ post (Or.inl rfl) hw h
  simp only [selIndices, Except.ok.injEq] at hsel; subst hsel
  cases bound with
  | none => simp [seqItems] at hseq
  | some raw =>
    simp only [seqItems, Option.some.injEq] at hseq; subst hseq
    have hc2 : clsOK vcls vvk = true := by
      simp only [valWF, Bool.and_eq_true] at hw; exact hw.1.2
    have hxs : decodeItems vvk vn raw = [] := by
      cases hd : decodeItems vvk vn raw with
      | nil => rfl
      | cons x t =>
        exfalso
        have hx : x ∈ decodeItems vvk vn raw := by rw [hd]; simp
        have hdom := (hel x hx).2.1
        rw [decodeItems_eq] at hx
        simp only [List.mem_map] at hx
        obtain ⟨i, _, rfl⟩ := hx
        rw [mismatch_no_items cls vcls vk vvk _ hc hc2 hm] at hdom
        cases hdom
    rw [hxs] at hlen hsm
    have hn : n = 0 := by simpa using hlen.symm
    subst hn
    simp only [List.range_zero, storeMany, Prod.mk.injEq, and_true] at hsm; subst hsm
    refine ⟨?_, ?_, by rw [hold]; rfl⟩
    · rw [inDom_arr_whole_arr]; simp [seqItems, hxs]
    · rw [postOk_arr]; simp [pairsOf, readField, selIndices]

/-- `msg.arr = other_msg.arr` with an array object of the same family: the descriptor's own branch -/
theorem arr_obj_sound (cls : ArrCls) (vk : VK) (hF : FloatOK vk) (n : Nat) (old : Bytes) (vcls : ArrCls)
    (vvk : VK) (vn : Nat) (bound : Option Bytes) (post : Bytes)
    (hw : valWF vk (.arr vcls vvk vn bound) = true)
    (h : lift old (setArrObj true cls vk n vcls vvk vn bound) = (post, none)) :
    SoundAt (.arr cls vk n) .whole (.arr vcls vvk vn bound) post := by
  have hs := lift_ok _ _ _ h
  unfold setArrObj at hs
  simp only [if_true] at hs
  split at hs
  · cases hs
  · rename_i hva
    unfold validateArray at hva
    split at hva; · cases hva
    rename_i hcls
    split at hva; · cases hva
    rename_i hvk
    split at hva; · cases hva
    rename_i hvn
    split at hva; · cases hva
    rename_i hb
    have hcls : vcls = cls := by simpa using hcls
    have hvk : vvk = vk := by simpa using hvk
    have hvn : vn = n := by simpa using hvn
    subst hcls hvk hvn
    cases bound with
    | none => simp at hb
    | some raw =>
      have hraw : raw = post := by
        cases vvk with
        | int k => cases k <;> simpa using hs
        | flt k => simpa using hs
        | byte => simpa using hs
        | strct t z => simpa using hs
      subst hraw
      simp only [valWF, Bool.and_eq_true, beq_iff_eq, List.all_eq_true, decide_eq_true_eq] at hw
      have hl : raw.length = vvk.esize * vn := hw.1.1.1
      have hbytes : ∀ b ∈ raw, b < 256 := hw.1.1.2
      refine ⟨by rw [inDom_arr_whole_arr]; simp, ?_, hl⟩
      have hsel : selIndices vn .whole = .ok (List.range vn) := rfl
      have hlen : (decodeItems vvk vn raw).length = (List.range vn).length := by
        rw [decodeItems_eq]; simp
      apply postOk_of_pairs vcls vvk vn .whole _ raw (List.range vn) (decodeItems vvk vn raw) hsel hlen
      · simp [pairsOf]
      · intro p hp
        rw [decodeItems_eq, List.zip_map_right] at hp
        simp only [List.mem_map] at hp
        obtain ⟨q, hq, rfl⟩ := hp
        have hq' := List.of_mem_zip hq
        have : q.1 = q.2 := by
          have := List.mem_iff_getElem.mp hq
          obtain ⟨i, hi, he⟩ := this
          simp at he
          rw [← he]
        simp only [Prod.map_fst, Prod.map_snd, id_eq]
        rw [← this]
        have hi : q.1 < vn := by simpa using hq'.1
        exact holds1_decodeOne vvk hF _
          (elemBytes_length raw q.1 vvk.esize (by rw [hl]; exact idx_in_range hi))
          (elemBytes_bytes raw q.1 vvk.esize hbytes)


theorem setItem_bad (vk : VK) (n : Nat) (old : Bytes) (v : PyVal) : (setItem true vk n old .bad v).2 ≠ none := by
  unfold setItem
  split <;> simp

/-- **arrays**: every accepted assignment to an array field — one element, any slice, the whole array, from any kind
of right-hand side — is in the domain, leaves every selected element holding its item, and reads back as stored -/
theorem arr_field_sound (cls : ArrCls) (vk : VK) (hF : FloatOK vk)
    (n : Nat) (old : Bytes) (key : Key) (v : PyVal) (post : Bytes) (hc : clsOK cls vk = true)
    (hold : old.length = vk.esize * n) (hw : valWF vk v = true)
    (h : setField true (.arr cls vk n) old key v = (post, none)) : SoundAt (.arr cls vk n) key v post := by
  unfold setField at h
  simp only at h
  split at h
  · rename_i vcls vvk vn bound
    split at h
    · exact arr_obj_sound cls vk hF n old vcls vvk vn bound post hw h
    · rename_i hm
      exact arr_whole_mismatch_sound cls vk hF n old vcls vvk vn bound post hc hw (by simpa using hm) hold h
  · rename_i hne
    cases key with
    | bad => exact absurd (by rw [h]) (setItem_bad vk n old v)
    | idx i => exact arr_idx_sound cls vk hF n old i v post hold hw h
    | slice a b c =>
      exact arr_seq_sound cls vk hF n old _ v post (Or.inr ⟨a, b, c, rfl⟩) hold hw (fun hk => by cases hk) h
    | whole =>
      exact arr_seq_sound cls vk hF n old _ v post (Or.inl rfl) hold hw
        (fun _ c k m r hv => hne c k m r rfl hv) h

end Pyrtma.Validators
