import Pyrtma.Drv.ClientSub
def main : IO Unit := Pyrtma.Drv.ClientSub.main
