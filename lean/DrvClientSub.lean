-- stub: replaced by the real driver for model ClientSub (imports Pyrtma.Drv.ClientSub)
def main : IO Unit := pure ()
