import Pyrtma.Drv.Registry
def main : IO Unit := Pyrtma.Drv.Registry.main
