-- stub: replaced by the real driver for model Registry (imports Pyrtma.Drv.Registry)
def main : IO Unit := pure ()
