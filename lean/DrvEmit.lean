-- stub: replaced by the real driver for model Emit (imports Pyrtma.Drv.Emit)
def main : IO Unit := pure ()
