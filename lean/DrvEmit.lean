import Pyrtma.Drv.Emit
def main : IO Unit := Pyrtma.Drv.Emit.main
