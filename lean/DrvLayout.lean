import Pyrtma.Drv.Layout
def main : IO Unit := Pyrtma.Drv.Layout.main
